#!/bin/sh
# usage: check.sh <property> <tier>   (cwd = /verif)
# Rebuilds nothing of the engine (setup_cmd did); the encoding itself is regenerated from /repo's
# working tree on every run (go/packages + go/ssa inside gosym).
export GOFLAGS=-mod=mod GOPROXY=off
HERE=$(cd "$(dirname "$0")" && pwd)
if [ ! -x "$HERE/bin/gosym" ]; then
  (cd "$HERE/engine" && go build -o "$HERE/bin/gosym" ./cmd/gosym) || { echo "INFRA: cannot build engine"; exit 2; }
fi
exec "$HERE/bin/gosym" check --property "$1" --tier "${2:-quick}"
