package anthropic

import (
	"context"
	"net/http"
	"strings"

	"github.com/thushan/olla/internal/zzverif/gosym"
)

// VerifHostileCompletion: TransformResponse on an ARBITRARY decoded JSON object (lazily
// initialised: every key the code looks at is absent / null / string / number / bool / object /
// array, recursively): it returns a result or an error, it never panics.
func VerifHostileCompletion() {
	t := zzTranslator()
	resp := gosym.LazyJSON("resp")
	out, err := t.TransformResponse(context.Background(), resp, &http.Request{Header: http.Header{}})
	gosym.Assert((out == nil) == (err != nil), "a hostile completion yields a result or an error, never both or neither")
	if err == nil {
		r, ok := out.(AnthropicResponse)
		gosym.Assert(ok && len(r.Content) >= 1, "a translated message always has at least one content block")
	}
	gosym.Reach("end")
}

// VerifHostileChunks: K arbitrary decoded stream chunks (lazy objects) through processStreamLine
// and finalizeStream: no panic, the stream still terminates with message_stop.
func VerifHostileChunks() {
	K := gosym.Param("K")
	t := zzTranslator()
	w := &zzSSE{h: http.Header{}}
	rc := http.NewResponseController(w)
	state := &StreamingState{messageID: "msg_verif", contentBlocks: make([]ContentBlock, 0, 4), toolCallBuffers: map[int]*strings.Builder{}, toolIndexToBlock: map[int]int{}}
	for k := 0; k < K; k++ {
		chunk := gosym.LazyJSON("chunk" + string(rune('0'+k)))
		_ = t.processStreamLine(gosym.JSONLine("data: ", chunk), state, w, rc)
	}
	if !state.messageStartSent {
		t.writeEvent(w, "message_start", t.createMessageStart(state))
	}
	gosym.Assert(t.finalizeStream(state, w, rc, nil) == nil, "the stream can always be finalised")
	gosym.Assert(w.parse(), "every event is well-formed SSE")
	n := len(w.events)
	gosym.Assert(n >= 2 && w.events[n-1].name == "message_stop" && w.events[n-2].name == "message_delta", "the stream still ends with message_delta, message_stop")
	gosym.Reach("end")
}
