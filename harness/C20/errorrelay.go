package handlers

import (
	"bytes"
	"context"
	"io"
	"net/http"
	"net/url"

	"github.com/thushan/olla/internal/adapter/translator/anthropic"
	"github.com/thushan/olla/internal/app/middleware"
	"github.com/thushan/olla/internal/config"
	"github.com/thushan/olla/internal/core/domain"
	"github.com/thushan/olla/internal/zzverif/gosym"
)

// VerifHostileBackendAnswer: on the translated (non-streaming) Anthropic route the backend answers
// with an ARBITRARY JSON object (lazily initialised) under status 200 or an error status: the
// handler never panics, always answers the client, and never answers 2xx with an empty body.
func VerifHostileBackendAnswer() {
	s := zzLoadShipped()
	u, _ := url.Parse("http://e:11434")
	healthy := []*domain.Endpoint{{Name: "a", URL: u, URLString: "http://e0:11434", Type: "sglang", Status: domain.StatusHealthy}}
	status := []int{200, 400, 500}[gosym.Choice("status", 3)]
	answer := gosym.LazyJSON("answer")
	px := &zzProxy{}
	px.writes = func(w http.ResponseWriter) {
		w.Header().Set("Content-Type", "application/json")
		w.WriteHeader(status)
		w.Write(gosym.JSONBytes(answer))
	}
	st := &zzStats{}
	a := zzApp(s, healthy, px)
	a.statsCollector = st
	trans := anthropic.NewTranslator(zzLog{}, config.AnthropicTranslatorConfig{Enabled: true, MaxMessageSize: 1 << 20})
	req := anthropic.AnthropicRequest{Model: "m1", MaxTokens: 16, Messages: []anthropic.AnthropicMessage{{Role: "user", Content: "hi"}}}
	body := gosym.JSONBytes(req)
	w := &zzW{h: http.Header{}}
	ctx := context.WithValue(context.Background(), middleware.RequestIDKey, "req-1")
	r := (&http.Request{Method: "POST", URL: &url.URL{Path: "/olla/anthropic/v1/messages"}, Header: http.Header{"Content-Type": {"application/json"}},
		Body: io.NopCloser(bytes.NewReader(body)), ContentLength: int64(len(body)), RemoteAddr: "192.0.2.1:999"}).WithContext(ctx)
	a.translationHandler(trans)(w, r)
	gosym.Assert(w.started, "the client always gets an answer")
	gosym.Assert(w.status >= 200 && w.status < 600, "the answer carries a valid status")
	if status >= 400 {
		gosym.Assert(w.status == status, "a backend error status is relayed whatever its body looks like")
	}
	gosym.Assert(len(bytes.TrimSpace(w.body)) > 0, "the answer is never empty")
	gosym.Assert(len(st.events) == 1, "the request is recorded exactly once")
	gosym.Reach("end")
}
