package util

import (
	"math"

	"github.com/thushan/olla/internal/zzverif/gosym"
)

// VerifSafeNumbers: the numeric clamps used by the metrics extractor, for ALL int64 / uint64 /
// float64 inputs (every bit pattern: NaN, +-Inf, MinInt64, subnormals): results are finite and in
// range, and equal to the input where it is representable.
func VerifSafeNumbers() {
	x := gosym.Float64("x")
	r := float64(SafeFloat32(x))
	gosym.Assert(gosym.Not(math.IsNaN(r)), "SafeFloat32 never yields NaN")
	gosym.Assert(gosym.Not(math.IsInf(r, 0)), "SafeFloat32 never yields an infinity")
	gosym.Assert(gosym.And(r <= math.MaxFloat32, r >= -math.MaxFloat32), "SafeFloat32 stays within the float32 range")
	gosym.Assert(gosym.Implies(gosym.Or(math.IsNaN(x), math.IsInf(x, 0)), r == 0), "SafeFloat32 maps NaN and infinities to 0")

	v := gosym.Int64("v")
	i32 := int64(SafeInt32(v))
	gosym.Assert(gosym.And(i32 >= math.MinInt32, i32 <= math.MaxInt32), "SafeInt32 stays within the int32 range")
	gosym.Assert(gosym.Implies(gosym.And(v >= math.MinInt32, v <= math.MaxInt32), i32 == v), "SafeInt32 is the identity on representable values")
	gosym.Assert(gosym.Implies(v > math.MaxInt32, i32 == math.MaxInt32), "SafeInt32 saturates upwards")
	gosym.Assert(gosym.Implies(v < math.MinInt32, i32 == math.MinInt32), "SafeInt32 saturates downwards")

	u := SafeUint64(v)
	gosym.Assert(gosym.Implies(v >= 0, u == uint64(v)), "SafeUint64 is the identity on non-negative values")
	gosym.Assert(gosym.Implies(v < 0, u == 0), "SafeUint64 clamps negative values to 0")

	a, b := gosym.Uint64("a"), gosym.Uint64("b")
	d := SafeInt64Diff(a, b)
	gosym.Assert(d >= 0, "SafeInt64Diff is never negative")
	gosym.Assert(gosym.Implies(gosym.And(a >= b, a-b <= math.MaxInt64), uint64(d) == a-b), "SafeInt64Diff is exact when the difference is representable")
	gosym.Reach("end")
}
