package unifier

import (
	"sync"
	"time"

	"github.com/thushan/olla/internal/zzverif/gosym"
)

func zzBreakerConfig() CircuitBreakerConfig {
	return CircuitBreakerConfig{Enabled: true, FailureThreshold: gosym.Param("FT"), SuccessThreshold: gosym.Param("ST"),
		OpenDuration: 60 * time.Second, HalfOpenRequests: gosym.Param("HO")}
}

// VerifUnifierBreaker: all sequential histories of length L over {failure, success-of-an-admitted
// probe, ask, dt} vs the reference automaton (DESIGN.md A.1): opens at the FT-th consecutive
// failure, blocks while open within OpenDuration, then admits at most HO probes, closes after ST
// successful probes, a failed probe re-opens.
func VerifUnifierBreaker() {
	L := gosym.Param("L")
	cfg := zzBreakerConfig()
	cb := NewCircuitBreaker(cfg)
	dur := int64(cfg.OpenDuration)
	const (
		closed = 0
		open   = 1
		half   = 2
	)
	f, st, succ, admitted, outstanding := 0, closed, 0, 0, 0
	var lastFail int64
	for step := 0; step < L; step++ {
		switch gosym.Choice("op", 4) {
		case 0: // a failure is reported
			if st != closed && outstanding == 0 {
				// only admitted probes report (assumption: every admitted probe reports exactly once)
				gosym.Reach("skip-report")
				continue
			}
			if st != closed {
				outstanding--
			}
			cb.RecordFailure()
			f++
			lastFail = gosym.Now()
			if st == half || (st == closed && f >= cfg.FailureThreshold) {
				st, succ, admitted, outstanding = open, 0, 0, 0
			}
		case 1: // a success is reported
			if st != closed && outstanding == 0 {
				gosym.Reach("skip-report")
				continue
			}
			if st != closed {
				outstanding--
			}
			cb.RecordSuccess()
			switch st {
			case closed:
				f = 0
				gosym.Assert(cb.failures.Load() == 0, "success clears the failure count")
			case half:
				succ++
				if succ >= cfg.SuccessThreshold {
					st, f, succ, admitted, outstanding = closed, 0, 0, 0, 0
				}
			}
		case 2: // ask
			now := gosym.Now()
			ok := cb.Allow()
			gosym.Observe("allow", ok)
			switch st {
			case closed:
				gosym.Assert(ok, "closed breaker passes (opens only at the threshold-th consecutive failure)")
			case open:
				if now-lastFail > dur {
					gosym.Assert(ok, "after OpenDuration a probe is admitted (never stuck open)")
					st, f, succ, admitted, outstanding = half, 0, 0, 1, 1
				} else {
					gosym.Assert(!ok, "open and within OpenDuration: nothing passes")
				}
			case half:
				if ok {
					admitted++
					outstanding++
					gosym.Assert(admitted <= cfg.HalfOpenRequests, "half-open admits at most HalfOpenRequests probes")
				} else {
					gosym.Assert(admitted >= cfg.HalfOpenRequests, "half-open refuses only after HalfOpenRequests probes were admitted")
				}
			}
		case 3:
			gosym.Advance("dt")
		}
		gosym.Assert(int(cb.state.Load()) == st, "state agrees with the reference automaton")
	}
	gosym.Reach("end")
}

// VerifUnifierBreakerConcurrent: the breaker is open and OpenDuration has elapsed; G callers ask
// for permission concurrently, under every interleaving of their atomic steps: at most
// HalfOpenRequests of them are admitted.
func VerifUnifierBreakerConcurrent() {
	G := gosym.Param("G")
	cfg := zzBreakerConfig()
	cb := NewCircuitBreaker(cfg)
	for i := 0; i < cfg.FailureThreshold; i++ {
		cb.RecordFailure()
	}
	gosym.Assert(cb.GetState() == CircuitOpen, "opens at the threshold")
	gosym.AdvanceBy(int64(cfg.OpenDuration) + 1)
	verdict := make([]int, G) // private slot per goroutine: 0 = no answer, 1 = refused, 2 = admitted
	var wg sync.WaitGroup
	wg.Add(G)
	for g := 0; g < G; g++ {
		g := g
		go func() {
			defer wg.Done()
			verdict[g] = 1
			if cb.Allow() {
				verdict[g] = 2
			}
		}()
	}
	wg.Wait()
	admitted, done := 0, 0
	for _, v := range verdict {
		if v > 0 {
			done++
		}
		if v == 2 {
			admitted++
		}
	}
	gosym.Assert(done == G, "every caller gets an answer")
	gosym.AssertKF(admitted <= cfg.HalfOpenRequests, "unification breaker admits at most the configured number of probes when half-open, also under concurrent callers", "KF-C08-2", true)
	gosym.Reach("end")
}
