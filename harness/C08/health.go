package health

import (
	"github.com/thushan/olla/internal/zzverif/gosym"
)

// VerifHealthBreaker: all histories of length L over {failure, success, ask, time passes by a
// symbolic amount} against the reference automaton of DESIGN.md A.1 (threshold 3, timeout 30 s,
// probe window 1 s).  The start instant and every time step are solver variables.
func VerifHealthBreaker() {
	L := gosym.Param("L")
	const url = "http://e/health"
	cb := NewCircuitBreaker()
	timeout := int64(cb.timeout)
	T := cb.failureThreshold

	// reference state
	f := 0
	open := false
	var lastFail int64
	var lastPass int64
	passedSinceRecord := false
	probed := false // a probe was admitted since the last Record*

	for step := 0; step < L; step++ {
		switch gosym.Choice("op", 4) {
		case 0: // failure
			cb.RecordFailure(url)
			f++
			lastFail = gosym.Now()
			passedSinceRecord = false
			probed = false
			if f >= T {
				open = true
			}
			gosym.Assert(gosym.Implies(!open, !cb.IsOpenQuiet(url)), "P1: opens only at the threshold-th consecutive failure")
		case 1: // success
			cb.RecordSuccess(url)
			f = 0
			open = false
			passedSinceRecord = false
			probed = false
			st, ok := cb.endpoints.Load(url)
			if ok {
				gosym.Assert(st.failures == 0, "success clears the failure count")
				gosym.Assert(st.isOpen == 0, "success closes the breaker")
			}
		case 2: // ask
			now := gosym.Now()
			var la int64
			if st, ok := cb.endpoints.Load(url); ok {
				la = st.lastAttempt
			}
			blocked := cb.IsOpen(url)
			gosym.Observe("blocked", blocked)
			if !open {
				gosym.Assert(!blocked, "closed breaker passes")
			} else if !(lastFail+timeout < now) {
				gosym.Assert(blocked, "P2: open and within timeout blocks")
			} else {
				if !blocked {
					if passedSinceRecord {
						// known finding region: the probe slot is stale (older than 1 s) and is never re-armed
						stale := gosym.And(la != 0, la+1000000000 <= now)
						gosym.AssertKF(now-lastPass >= 1000000000, "P3: at most one probe per second while half-open", "KF-C08-1", stale)
					}
					lastPass = now
					passedSinceRecord = true
				}
				if !probed {
					gosym.Assert(!blocked, "P6: first ask after the timeout is admitted (no stuck-open)")
					probed = true
				}
			}
		case 3:
			gosym.Advance("dt")
		}
	}
	gosym.Reach("end")
}

// IsOpenQuiet reads the open flag without side effects (harness helper).
func (cb *CircuitBreaker) IsOpenQuiet(url string) bool {
	st, ok := cb.endpoints.Load(url)
	return ok && st.isOpen == 1
}

// VerifHealthBreakerInductive: an arbitrary open pre-state satisfying the representation
// invariant, then S steps over {ask, time passes, success, failure}: P2, P3, P4, P5 and no-stuck.
func VerifHealthBreakerInductive() {
	S := gosym.Param("S")
	const url = "http://e/health"
	cb := NewCircuitBreaker()
	timeout := int64(cb.timeout)
	now0 := gosym.Now()
	lf := gosym.Int64("lastFailure")
	la := gosym.Int64("lastAttempt")
	gosym.Assume(gosym.And(lf > 0, lf <= now0))
	// invariant: a probe timestamp is either absent or was taken after the timeout elapsed
	gosym.Assume(gosym.Or(la == 0, gosym.And(la > lf+timeout, la <= now0)))
	st := cb.loadOrCreateState(url)
	st.failures = int64(cb.failureThreshold)
	st.isOpen = 1
	st.lastFailure = lf
	st.lastAttempt = la

	open := true
	passed := la != 0
	lastPass := la
	lastFail := lf
	refFailures := int64(cb.failureThreshold)
	for step := 0; step < S; step++ {
		switch gosym.Choice("op", 4) {
		case 0:
			now := gosym.Now()
			var cur int64 = st.lastAttempt
			blocked := cb.IsOpen(url)
			if !open {
				gosym.Assert(!blocked, "closed breaker passes")
			} else if !(lastFail+timeout < now) {
				gosym.Assert(blocked, "P2: open and within timeout blocks")
			} else if !blocked {
				stale := gosym.And(cur != 0, cur+1000000000 <= now)
				gosym.AssertKF(gosym.Or(!passed, now-lastPass >= 1000000000), "P3: at most one probe per second while half-open", "KF-C08-1", stale)
				lastPass = now
				passed = true
			}
		case 1:
			gosym.Advance("dt")
		case 2:
			cb.RecordSuccess(url)
			open = false
			passed = false
			refFailures = 0
			gosym.Assert(!cb.IsOpen(url), "P4: success closes")
			gosym.Assert(st.failures == 0, "success clears the failure count")
		case 3:
			cb.RecordFailure(url)
			lastFail = gosym.Now()
			passed = false
			refFailures++
			if refFailures >= int64(cb.failureThreshold) {
				open = true // the reference re-opens after threshold failures since the last success
			}
			if open {
				gosym.Assert(cb.IsOpen(url), "P5: a failed probe keeps the breaker open for another timeout")
			}
		}
	}
	// no-stuck lemma: from whatever state, after the timeout and the probe window an ask passes
	if open {
		gosym.AdvanceBy(timeout + 1)
		gosym.AdvanceBy(1000000001)
		gosym.Assert(!cb.IsOpen(url), "no-stuck: after timeout and probe window an ask is admitted")
		cb.RecordSuccess(url)
		gosym.Assert(!cb.IsOpen(url), "no-stuck: success on the probe closes")
	}
	gosym.Reach("end")
}
