package olla

import (
	"github.com/thushan/olla/internal/adapter/health"
	"github.com/thushan/olla/internal/zzverif/gosym"
)

// VerifEngineBreaker: all histories of length L over {failure, success, ask, dt} for the olla
// engine's per-endpoint breaker (threshold 5, timeout 30 s, strict >) vs the reference automaton
// of DESIGN.md A.1.  Optionally starts from an arbitrary valid pre-state (PRE=1).
func VerifEngineBreaker() {
	L := gosym.Param("L")
	cb := &circuitBreaker{threshold: circuitBreakerThreshold}
	timeout := int64(health.DefaultCircuitBreakerTimeout)
	T := int(cb.threshold)

	const (
		closed = 0
		open   = 1
		half   = 2
	)
	f, st := 0, closed
	var lastFail int64
	if gosym.Param("PRE") == 1 {
		// arbitrary valid pre-state: the representation invariant of sequential histories
		pf := gosym.IntRange("pre_failures", 0, 8)
		ps := gosym.Choice("pre_state", 3)
		lf := gosym.Int64("pre_lastFailure")
		now0 := gosym.Now()
		gosym.Assume(gosym.And(lf >= 0, lf <= now0))
		gosym.Assume(gosym.Implies(ps == closed, pf < T))
		gosym.Assume(gosym.Implies(ps != closed, pf >= T))
		gosym.Assume(gosym.Implies(pf > 0, lf > 0))
		cb.failures, cb.state, cb.lastFailure = int64(pf), int64(ps), lf
		f, st, lastFail = pf, ps, lf
	}
	for step := 0; step < L; step++ {
		switch gosym.Choice("op", 4) {
		case 0:
			cb.RecordFailure()
			f++
			lastFail = gosym.Now()
			if st == half || f >= T {
				st = open
			}
		case 1:
			cb.RecordSuccess()
			f, st = 0, closed
			gosym.Assert(cb.failures == 0, "success clears the failure count")
			gosym.Assert(cb.state == 0, "success closes the breaker")
		case 2:
			now := gosym.Now()
			blocked := cb.IsOpen()
			gosym.Observe("blocked", blocked)
			switch st {
			case closed:
				gosym.Assert(!blocked, "closed breaker passes (opens only at the threshold-th consecutive failure)")
			case half:
				gosym.Assert(!blocked, "half-open breaker admits probe traffic")
			case open:
				if now-lastFail > timeout {
					gosym.Assert(!blocked, "after the timeout a probe is admitted (never stuck open)")
					st = half
				} else {
					gosym.Assert(blocked, "open and within timeout: nothing passes")
				}
			}
		case 3:
			gosym.Advance("dt")
		}
		gosym.Assert((cb.state == 0) == (st == closed), "state agrees with reference (closed)")
		gosym.Assert((cb.state == 1) == (st == open), "state agrees with reference (open)")
	}
	gosym.Reach("end")
}
