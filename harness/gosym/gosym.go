// Package gosym is the harness API of the /verif symbolic executor (DESIGN.md 3.1).
//
// This file is injected into the repository with an overlay only (never written to /repo) as
// internal/zzverif/gosym.  Under the symbolic interpreter every exported function below is an
// engine intrinsic and the bodies are not executed.  Compiled natively (go test -overlay) the
// bodies replay one recorded path: they hand back, in order, the values the solver chose.
package gosym

import (
	"context"
	"encoding/json"
	"fmt"
	"math"
	"os"
	"runtime"
	"strconv"
	"strings"
	"time"
)

type apiEvent struct {
	Kind string `json:"k"`
	Name string `json:"n"`
	Bits int    `json:"b"`
	Val  string `json:"v"`
}

type replayCase struct {
	ID     string         `json:"id"`
	Entry  string         `json:"entry"`
	Params map[string]int `json:"params"`
	API    []apiEvent     `json:"api"`
	Repeat int            `json:"repeat,omitempty"` // run the case this many times (existential obligations)
	Want   string         `json:"want,omitempty"`   // stop repeating once this Reach label was hit
}

type failure struct {
	Label    string `json:"label"`
	KF       string `json:"kf,omitempty"`
	InRegion bool   `json:"in_region"`
}

type observation struct {
	Name string `json:"n"`
	Val  string `json:"v"`
}

type caseResult struct {
	ID       string        `json:"id"`
	Failures []failure     `json:"failures"`
	Reached  []string      `json:"reached"`
	Observes []observation `json:"observes"`
	Panic    string        `json:"panic,omitempty"`
	Desync   string        `json:"desync,omitempty"`
	Consumed int           `json:"consumed"`
	Hang     bool          `json:"hang,omitempty"` // the case did not return within the hang timeout
}

type abortCase struct{ why string }

var (
	cur      *replayCase
	pos      int
	res      *caseResult
	clock    int64
	clockSet bool

	skippedClock     int64
	haveSkippedClock bool
)

func desync(msg string) {
	if res.Desync == "" {
		res.Desync = msg
	}
	panic(abortCase{msg})
}

func pop(kind, name string) apiEvent {
	for pos < len(cur.API) && (strings.HasPrefix(cur.API[pos].Kind, "env-") || cur.API[pos].Kind == "lazy" || (cur.API[pos].Kind == "clock0" && kind != "clock0")) {
		if cur.API[pos].Kind == "clock0" {
			// the clock origin was drawn by target code reading the clock before the harness did: keep it
			if v, err := strconv.ParseUint(cur.API[pos].Val, 10, 64); err == nil {
				skippedClock, haveSkippedClock = int64(v), true
			}
		}
		pos++ // engine-side environment value: not consumed natively
	}
	if pos >= len(cur.API) {
		if len(res.Failures) > 0 || (cur.Repeat > 0 && cur.Want != "") {
			// the recorded path ended at the violated assertion (or this is a prefix-only case)
			panic(abortCase{"end of recorded prefix"})
		}
		desync(fmt.Sprintf("replay exhausted at %s(%q)", kind, name))
	}
	ev := cur.API[pos]
	if ev.Kind != kind || ev.Name != name {
		desync(fmt.Sprintf("replay expected %s(%q) but harness asked %s(%q) at #%d", ev.Kind, ev.Name, kind, name, pos))
	}
	pos++
	res.Consumed = pos
	return ev
}

func popU(kind, name string) uint64 {
	ev := pop(kind, name)
	v, err := strconv.ParseUint(ev.Val, 10, 64)
	if err != nil {
		desync("bad value " + ev.Val)
	}
	return v
}

// Symbolic reports whether the harness runs under the symbolic interpreter.
func Symbolic() bool { return false }

// Param returns a concrete tier parameter of the job.
func Param(name string) int {
	v, ok := cur.Params[name]
	if !ok {
		desync("undefined parameter " + name)
	}
	return v
}

func Int64(name string) int64   { return int64(popU("int", name)) }
func Uint64(name string) uint64 { return popU("uint", name) }
func Int(name string) int       { return int(int64(popU("int", name))) }
func Int32(name string) int32   { return int32(uint32(popU("int", name))) }
func Byte(name string) byte     { return byte(popU("uint", name)) }
func Bool(name string) bool     { return popU("bool", name) != 0 }

// IntRange returns a symbolic int constrained to lo..hi.
func IntRange(name string, lo, hi int) int {
	v := int(int64(popU("int", name)))
	if v < lo || v > hi {
		desync("IntRange value outside range")
	}
	return v
}

// Choice is a concrete n-way decision explored exhaustively.
func Choice(name string, n int) int {
	ev := pop("choice", name)
	v, _ := strconv.Atoi(ev.Val)
	if v < 0 || v >= n {
		desync("choice out of range")
	}
	return v
}

// String returns a string of exactly n symbolic bytes.
func String(name string, n int) string {
	ev := pop("str", name)
	s, err := strconv.Unquote(ev.Val)
	if err != nil || len(s) != n {
		desync("bad string value " + ev.Val)
	}
	return s
}

// Bytes returns n symbolic bytes.
func Bytes(name string, n int) []byte {
	ev := pop("bytes", name)
	s, err := strconv.Unquote(ev.Val)
	if err != nil || len(s) != n {
		desync("bad bytes value " + ev.Val)
	}
	return []byte(s)
}

// Assume constrains everything that follows it.
func Assume(b bool) {
	if !b {
		desync("assumption false under the replayed values")
	}
}

// Assert states an obligation.
func Assert(b bool, label string) {
	if !b {
		res.Failures = append(res.Failures, failure{Label: label})
	}
}

// AssertKF states an obligation whose failures inside inRegion belong to known finding kf.
func AssertKF(b bool, label, kf string, inRegion bool) {
	if !b {
		f := failure{Label: label, InRegion: inRegion}
		if inRegion {
			f.KF = kf
		}
		res.Failures = append(res.Failures, f)
	}
}

// Reach marks a reachability witness.
func Reach(label string) { res.Reached = append(res.Reached, label) }

// Expect declares that some explored path must reach Reach(label) (cross-path existential).
func Expect(label string) {}

// Observe records a value for differential replay (interpreter vs native).
func Observe(name string, v any) {
	var s string
	switch x := v.(type) {
	case string:
		s = strconv.Quote(x)
	case []byte:
		s = strconv.Quote(string(x))
	case bool:
		s = strconv.FormatBool(x)
	case int:
		s = strconv.FormatUint(uint64(x), 10)
	case int64:
		s = strconv.FormatUint(uint64(x), 10)
	case int32:
		s = strconv.FormatUint(uint64(x), 10)
	case uint64:
		s = strconv.FormatUint(x, 10)
	case uint32:
		s = strconv.FormatUint(uint64(x), 10)
	case uint8:
		s = strconv.FormatUint(uint64(x), 10)
	case time.Duration:
		s = strconv.FormatUint(uint64(x), 10)
	default:
		s = fmt.Sprint(v)
	}
	res.Observes = append(res.Observes, observation{name, s})
}

func And(a ...bool) bool {
	for _, x := range a {
		if !x {
			return false
		}
	}
	return true
}

func Or(a ...bool) bool {
	for _, x := range a {
		if x {
			return true
		}
	}
	return false
}

func Not(a bool) bool        { return !a }
func Implies(a, b bool) bool { return !a || b }

// Now is the model clock in nanoseconds.
func Now() int64 {
	if !clockSet {
		if haveSkippedClock {
			clock = skippedClock
		} else {
			clock = int64(popU("clock0", "t0"))
		}
		clockSet = true
	}
	return clock
}

// Advance lets a symbolic non-negative amount of time pass.
func Advance(name string) int64 {
	Now()
	d := int64(popU("adv", name))
	clock += d
	return d
}

// AdvanceBy lets d nanoseconds pass.
func AdvanceBy(d int64) { Now(); clock += d }

// TimeNow replaces time.Now in clock-rewritten sources during native replay.
func TimeNow() time.Time { return time.Unix(0, Now()) }

// TimeSince replaces time.Since in clock-rewritten sources during native replay.
func TimeSince(t time.Time) time.Duration { return time.Unix(0, Now()).Sub(t) }

// RunPending lets spawned goroutines run until each is done or blocked.
func RunPending() {
	// natively: wait until the goroutines spawned since the case started have finished (or 50 ms)
	for i := 0; i < 500; i++ {
		runtime.Gosched()
		if runtime.NumGoroutine() <= baseGoroutines {
			return
		}
		time.Sleep(100 * time.Microsecond)
	}
}

var baseGoroutines int

// Yield is an explicit scheduling point.
func Yield() { runtime.Gosched() }

// Unfinished is the number of spawned goroutines that have not terminated (engine only).
func Unfinished() int { return 0 }

// GoroutinesSettled lets every goroutine run until nothing more can happen (engine: all goroutines
// finished or blocked with no timer left to fire) and returns how many goroutines exist besides the
// caller.  Natively it waits until runtime.NumGoroutine has been stable for 150 ms (at most 5 s).
func GoroutinesSettled() int {
	window := SettleWindow
	if window < 150*time.Millisecond {
		window = 150 * time.Millisecond
	}
	last, stableSince := runtime.NumGoroutine(), time.Now()
	deadline := time.Now().Add(5*time.Second + 3*window)
	for time.Now().Before(deadline) {
		time.Sleep(10 * time.Millisecond)
		n := runtime.NumGoroutine()
		if n != last {
			last, stableSince = n, time.Now()
			continue
		}
		if time.Since(stableSince) >= window {
			break
		}
	}
	return last - 1
}

// hangTimeout: how long a native case may run before it is reported as a hang.
const hangTimeout = 20 * time.Second

// OnHang attributes a hang (every goroutine blocked, nothing left to fire) that happens from now on
// to the known finding kfID when inRegion holds (engine intrinsic; natively a no-op: the replay
// runner reports a case that does not return as a hang).
func OnHang(kfID string, inRegion bool) {}

// SettleWindow: how long the goroutine count must be stable for GoroutinesSettled natively; a
// harness whose environment sleeps (scripted pauses) sets it above its longest sleep.
var SettleWindow time.Duration

// VirtualNow is the discrete-event clock of the engine in nanoseconds (TIMERS_DES=1); natively -1.
func VirtualNow() int64 { return -1 }

// NewDeadlineChan is closed when d has passed on the engine's discrete-event clock (TIMERS_DES=1);
// natively after d of real time.
func NewDeadlineChan(d time.Duration) chan struct{} {
	ch := make(chan struct{})
	time.AfterFunc(d, func() { close(ch) })
	return ch
}

// ---- JSON boundary helpers (DESIGN.md 3.2).  Natively these are the real encoding/json; under the
// interpreter json.Marshal yields an opaque token that maps back to the Go value and
// json.Unmarshal of a token hands the code that value.

// JSONBytes renders v as the JSON text a backend/client would send.
func JSONBytes(v any) []byte {
	b, err := json.Marshal(v)
	if err != nil {
		desync("harness value does not marshal: " + err.Error())
	}
	return b
}

// JSONLine is prefix + JSON text of v (an SSE data line).
func JSONLine(prefix string, v any) string { return prefix + string(JSONBytes(v)) }

// DecodeJSON parses JSON text written by the code under test into a generic value tree.
func DecodeJSON(b []byte) (any, bool) {
	var v any
	if json.Unmarshal(b, &v) != nil {
		return nil, false
	}
	return v, true
}

// ReplayMain runs every case of $GOSYM_REPLAY against the natively compiled harness.
func ReplayMain(entries map[string]func()) {
	b, err := os.ReadFile(os.Getenv("GOSYM_REPLAY"))
	if err != nil {
		fmt.Println("GOSYM-ERROR cannot read replay file:", err)
		return
	}
	var file struct {
		Cases []replayCase `json:"cases"`
	}
	if err := json.Unmarshal(b, &file); err != nil {
		fmt.Println("GOSYM-ERROR bad replay file:", err)
		return
	}
	for i := range file.Cases {
		c := &file.Cases[i]
		res = &caseResult{ID: c.ID}
		f := entries[c.Entry]
		reps := c.Repeat
		if reps < 1 {
			reps = 1
		}
		seen := map[string]bool{}
		started := time.Now()
		hung := false
		for k := 0; k < reps; k++ {
			if k > 0 && time.Since(started) > 60*time.Second {
				break // repeat budget
			}
			baseGoroutines = runtime.NumGoroutine()
			cur, pos, clock, clockSet, haveSkippedClock = c, 0, 0, false, false
			if f == nil {
				res.Desync = "no such entry " + c.Entry
				break
			}
			done := make(chan struct{})
			myRes := res
			go func() {
				defer close(done)
				defer func() {
					if p := recover(); p != nil {
						if _, ok := p.(abortCase); ok {
							return
						}
						myRes.Panic = fmt.Sprint(p)
					}
				}()
				f()
			}()
			select {
			case <-done:
			case <-time.After(hangTimeout):
				// the entry did not return: report a hang; its goroutines stay parked and later
				// cases get a fresh result object
				out, _ := json.Marshal(&caseResult{ID: c.ID, Hang: true, Reached: append([]string{}, myRes.Reached...)})
				fmt.Println("GOSYM-RESULT " + string(out))
				res = &caseResult{ID: c.ID + "-abandoned"}
				hung = true
			}
			if hung {
				break
			}
			if c.Repeat > 0 && c.Want == "" {
				// schedule-dependent counterexample: repeat with the real scheduler until it shows
				if len(res.Failures) > 0 || res.Panic != "" || res.Desync != "" {
					break
				}
				res.Observes = res.Observes[:0]
				res.Reached = res.Reached[:0]
				continue
			}
			if c.Repeat > 0 {
				for _, l := range res.Reached {
					seen[l] = true
				}
				res.Reached = res.Reached[:0]
				if seen[c.Want] || res.Desync != "" {
					break
				}
			}
		}
		if hung {
			continue
		}
		if c.Repeat > 0 && c.Want != "" {
			for l := range seen {
				res.Reached = append(res.Reached, l)
			}
		}
		out, _ := json.Marshal(res)
		fmt.Println("GOSYM-RESULT " + string(out))
	}
}

// ---------------------------------------------------------------------------------------
// Context model (DESIGN.md 3.2).  Under the interpreter context.WithCancel / WithTimeout /
// WithDeadline are redirected to these functions: the real implementations rest on runtime timers
// and unsafe atomics.  A deadline "may fire whenever something waits on it" (job parameter
// TIMERS_FIRE=1) or never (default).  Natively these are never called.

type ModelCtx struct {
	parent   context.Context
	done     chan struct{}
	err      error
	children []*ModelCtx
	timed    bool
}

func (c *ModelCtx) Deadline() (time.Time, bool) {
	if c.timed {
		return time.Time{}, true
	}
	return c.parent.Deadline()
}
func (c *ModelCtx) Done() <-chan struct{} { return c.done }
func (c *ModelCtx) Err() error {
	if c.err != nil {
		return c.err
	}
	if ChanClosed(c.done) {
		return context.DeadlineExceeded // the deadline channel fired
	}
	return nil
}
func (c *ModelCtx) Value(k any) any { return c.parent.Value(k) }

func (c *ModelCtx) cancelWith(err error) {
	if c.err == nil && !ChanClosed(c.done) {
		c.err = err
		close(c.done)
	}
	for _, ch := range c.children {
		ch.cancelWith(err)
	}
}

func newModelCtx(parent context.Context, timed bool) *ModelCtx {
	c := &ModelCtx{parent: parent, timed: timed}
	if timed {
		c.done = NewTimerChan()
	} else {
		c.done = make(chan struct{})
	}
	if p, ok := parent.(*ModelCtx); ok {
		p.children = append(p.children, c)
	}
	if err := parent.Err(); err != nil {
		c.cancelWith(err)
	}
	return c
}

func ModelWithCancel(parent context.Context) (context.Context, context.CancelFunc) {
	c := newModelCtx(parent, false)
	return c, func() { c.cancelWith(context.Canceled) }
}

func ModelWithTimeout(parent context.Context, d time.Duration) (context.Context, context.CancelFunc) {
	c := newModelCtx(parent, true)
	return c, func() { c.cancelWith(context.Canceled) }
}

func ModelWithDeadline(parent context.Context, t time.Time) (context.Context, context.CancelFunc) {
	c := newModelCtx(parent, true)
	return c, func() { c.cancelWith(context.Canceled) }
}

// NewTimerChan is a channel that may deliver whenever it is waited upon (engine intrinsic).
func NewTimerChan() chan struct{} { return make(chan struct{}) }

// ChanClosed reports whether ch is closed (engine intrinsic; natively a non-blocking receive).
func ChanClosed(ch chan struct{}) bool {
	select {
	case _, ok := <-ch:
		return !ok
	default:
		return false
	}
}

// RepoRoot is the root of the repository under test (natively: walk up from the test's working
// directory to go.mod; the interpreter returns the loaded tree's root).
func RepoRoot() string {
	dir, err := os.Getwd()
	if err != nil {
		return "."
	}
	for i := 0; i < 12; i++ {
		if _, err := os.Stat(dir + "/go.mod"); err == nil {
			return dir
		}
		dir = dir + "/.."
	}
	return "."
}

// LazyJSON is a JSON object whose content is decided only when the code under test looks at it
// (engine: key present / absent / null on lookup, "is of type T / is not" on each type assertion).
// Natively the object is rebuilt up front from the decisions recorded on the path.
func LazyJSON(name string) map[string]interface{} {
	type node struct {
		kind     string // "", null, string, number, bool, object, array0, array1
		not      map[string]bool
		children map[string]*node
		order    []string
		elem     *node
	}
	nodes := map[string]*node{}
	get := func(path string) *node {
		n := nodes[path]
		if n == nil {
			n = &node{not: map[string]bool{}, children: map[string]*node{}}
			nodes[path] = n
		}
		return n
	}
	root := get(name)
	root.kind = "object"
	for _, ev := range cur.API {
		if ev.Kind != "lazy" || !(strings.HasPrefix(ev.Name, name+".") || strings.HasPrefix(ev.Name, name+"[")) {
			continue
		}
		n := get(ev.Name)
		switch {
		case ev.Val == "absent":
			delete(nodes, ev.Name)
			continue
		case ev.Val == "null":
			n.kind = "null"
		case ev.Val == "present":
		case strings.HasPrefix(ev.Val, "is:"):
			n.kind = ev.Val[3:]
		case strings.HasPrefix(ev.Val, "not:"):
			n.not[ev.Val[4:]] = true
		}
		// link to the parent
		if strings.HasSuffix(ev.Name, "[0]") {
			get(strings.TrimSuffix(ev.Name, "[0]")).elem = n
		} else if i := strings.LastIndex(ev.Name, "."); i >= 0 {
			p := get(ev.Name[:i])
			key := ev.Name[i+1:]
			if p.children[key] == nil {
				p.order = append(p.order, key)
			}
			p.children[key] = n
		}
	}
	var build func(n *node) interface{}
	build = func(n *node) interface{} {
		kind := n.kind
		if kind == "" { // present but never successfully asserted: any kind not excluded
			for _, k := range []string{"string", "number", "bool", "object", "array"} {
				if !n.not[k] {
					kind = k
					break
				}
			}
			if kind == "array" {
				kind = "array0"
			}
		}
		switch kind {
		case "string":
			return "x"
		case "number":
			return float64(1)
		case "bool":
			return true
		case "object":
			m := map[string]interface{}{}
			for _, k := range n.order {
				if c := n.children[k]; c != nil && nodes[pathOf(nodes, c)] != nil {
					m[k] = build(c)
				}
			}
			return m
		case "array0":
			return []interface{}{}
		case "array1":
			if n.elem != nil {
				return []interface{}{build(n.elem)}
			}
			return []interface{}{"x"}
		}
		return nil
	}
	m, _ := build(root).(map[string]interface{})
	return m
}

func pathOf[T comparable](m map[string]T, v T) string {
	for k, x := range m {
		if x == v {
			return k
		}
	}
	return ""
}

// Float64 is an arbitrary IEEE-754 double (every bit pattern, including NaNs and infinities).
func Float64(name string) float64 { return math.Float64frombits(popU("f64", name)) }
