package core

import (
	"context"
	"errors"
	"fmt"
	"io"
	"net"
	"net/http"
	"strings"
	"syscall"
	"time"

	"github.com/thushan/olla/internal/core/domain"
	"github.com/thushan/olla/internal/core/ports"
	"github.com/thushan/olla/internal/zzverif/gosym"
)

// zzSel is an arbitrary selector honouring the contract "returns a member of its argument".
type zzSel struct {
	inflight map[string]int
	maxSeen  map[string]int
}

func (*zzSel) Name() string { return "zz" }
func (*zzSel) Select(_ context.Context, eps []*domain.Endpoint) (*domain.Endpoint, error) {
	return eps[gosym.Choice("pick", len(eps))], nil
}
func (s *zzSel) IncrementConnections(e *domain.Endpoint) {
	s.inflight[e.Name]++
	if s.inflight[e.Name] > s.maxSeen[e.Name] {
		s.maxSeen[e.Name] = s.inflight[e.Name]
	}
}
func (s *zzSel) DecrementConnections(e *domain.Endpoint) { s.inflight[e.Name]-- }

type zzNetErr struct{ msg string }

func (e zzNetErr) Error() string { return e.msg }
func (zzNetErr) Timeout() bool   { return false }
func (zzNetErr) Temporary() bool { return false }

// zzConnErr returns the k-th connection-class error shape (the classes the property names).
func zzConnErr(k int) error {
	switch k {
	case 0: // refused, as the transport reports it
		return &net.OpError{Op: "dial", Net: "tcp", Err: syscall.ECONNREFUSED}
	case 1: // reset before headers
		return &net.OpError{Op: "read", Net: "tcp", Err: syscall.ECONNRESET}
	case 2: // unreachable, only recognisable by its text after wrapping
		return errors.New("dial tcp 10.0.0.1:11434: connect: network is unreachable")
	default: // timed out (a net.Error)
		return zzNetErr{"i/o timeout"}
	}
}

const (
	zzFocusC02 = 2
	zzFocusC03 = 3
	zzFocusC04 = 4
	zzFocusC19 = 19
	zzFocusC01 = 1
)

// zzRetryKernel drives the real ExecuteWithRetry with N candidates, an arbitrary selector and a
// fault-injecting ProxyFunc whose behaviour per attempt is a decision.
func zzRetryKernel(focus int) {
	n := gosym.Param("N")
	names := []string{"A", "B", "C", "D"}
	eps := make([]*domain.Endpoint, n)
	t0 := gosym.Now()
	for i := range eps {
		eps[i] = &domain.Endpoint{Name: names[i], URLString: "http://" + names[i], Status: domain.StatusHealthy, BackoffMultiplier: 1,
			CheckInterval: 5 * time.Second}
	}
	orig := append([]*domain.Endpoint{}, eps...)
	// the repository knows one more healthy endpoint that is NOT a candidate of this request
	// (e.g. excluded by model/provider routing or because it lacks native support)
	outsider := &domain.Endpoint{Name: "X", URLString: "http://X", Status: domain.StatusHealthy, BackoffMultiplier: 1, CheckInterval: 5 * time.Second}
	disc := &zzDisc{healthy: append(append([]*domain.Endpoint{}, eps...), outsider)}
	sel := &zzSel{inflight: map[string]int{}, maxSeen: map[string]int{}}
	h := NewRetryHandler(disc, zzLog{})
	w := &zzW{h: http.Header{}}
	bodyLen := 0
	var bodyBytes []byte
	r := &http.Request{Method: "POST", Header: http.Header{}}
	if focus == zzFocusC01 || focus == zzFocusC04 {
		bodyLen = gosym.Param("BODY")
		bodyBytes = gosym.Bytes("body", bodyLen)
		r.Body = io.NopCloser(&zzReader{data: append([]byte{}, bodyBytes...)})
	}
	attempted := map[string]int{}
	connFailed := map[string]bool{}
	skipped := map[string]bool{} // the engine declined to contact it (circuit open)
	attempts := 0
	lastOK := false
	okSeen := false         // some attempt was assigned "ok"
	startedBefore := false  // an earlier attempt delivered something to the client
	connFailAfterWrite := false
	writer := ""            // which endpoint's bytes are in w
	mixed := false
	panicked := false
	var runErr error
	func() {
		defer func() {
			if p := recover(); p != nil {
				panicked = true
			}
		}()
		runErr = h.ExecuteWithRetry(context.Background(), w, r, eps, sel, &ports.RequestStats{},
			func(ctx context.Context, rw http.ResponseWriter, rq *http.Request, ep *domain.Endpoint, st *ports.RequestStats) error {
				if focus == zzFocusC02 {
					gosym.AssertKF(!w.started, "C02: no attempt is started after an earlier attempt delivered status or bytes to the client", "KF-C02-1", connFailAfterWrite)
				}
				attempted[ep.Name]++
				if focus == zzFocusC04 {
					gosym.Assert(attempted[ep.Name] == 1, "C04: each candidate is attempted at most once")
				}
				if focus == zzFocusC19 {
					gosym.Assert(sel.inflight[ep.Name] == 1, "C19: the gauge counts the attempt in flight")
					for _, o := range orig {
						if o != ep {
							gosym.Assert(sel.inflight[o.Name] == 0, "C19: no gauge is held for an endpoint without an attempt in flight")
						}
					}
				}
				attempts++
				if focus == zzFocusC03 {
					member := false
					for _, o := range orig {
						if o == ep {
							member = true
						}
					}
					gosym.Assert(member, "C03: the dispatched endpoint belongs to the candidate set")
					gosym.Assert(ep.Status.IsRoutable(), "C03: the dispatched endpoint is routable")
					gosym.Assert(!connFailed[ep.Name], "C03: an endpoint that failed at connection level is not tried again in this request")
				}
				if (focus == zzFocusC01 || focus == zzFocusC04) && rq.Body != nil {
					got, _ := io.ReadAll(rq.Body)
					gosym.Assert(len(got) == bodyLen, "C01/C04: every attempt can read a body of the original length")
					if len(got) == bodyLen {
						same := true
						for i := range got {
							same = gosym.And(same, got[i] == bodyBytes[i])
						}
						gosym.Assert(same, "C01/C04: every attempt reads the original body bytes")
					}
					gosym.Assert(rq.Method == "POST", "C01/C04: method unchanged on every attempt")
				}
				lastOK = false
				wrote := gosym.Choice("wrote", 3) // 0 nothing, 1 status line, 2 status + body bytes
				if wrote >= 1 {
					if writer != "" && writer != ep.Name {
						mixed = true
					}
					writer = ep.Name
					rw.WriteHeader(200)
				}
				if wrote == 2 {
					rw.Write([]byte(ep.Name + ep.Name))
				}
				outcome := gosym.Choice("outcome", 4)
				if focus == zzFocusC19 && gosym.Param("PANIC") == 1 && outcome == 3 {
					panic("backend made the engine panic")
				}
				switch outcome {
				case 0:
					lastOK = true
					okSeen = true
					startedBefore = true
					return nil
				case 1:
					connFailed[ep.Name] = true
					if wrote >= 1 {
						connFailAfterWrite = true
						startedBefore = true
					}
					return zzConnErr(gosym.Choice("connerr", 4))
				default:
					if wrote >= 1 {
						startedBefore = true
					}
					st.TotalBytes = 0
					if wrote == 2 {
						st.TotalBytes = 2
					}
					nOther := 4
					if wrote == 0 {
						nOther = 5 // an engine may also decline to contact the endpoint at all (open circuit)
					}
					switch gosym.Choice("othererr", nOther) {
					case 4:
						skipped[ep.Name] = true
						return fmt.Errorf("circuit breaker open for endpoint %s: %w", ep.Name, ErrEndpointSkipped)
					case 0:
						return errors.New("upstream said something odd: boom")
					case 1: // body ended early (clean close mid-response)
						return fmt.Errorf("request failed after 0.1s: %w", io.ErrUnexpectedEOF)
					case 2: // the client went away
						return fmt.Errorf("request cancelled after 0.1s - client disconnected: %w", context.Canceled)
					default: // malformed answer
						return errors.New("malformed HTTP response \"garbage\"")
					}
				}
			})
	}()
	_ = t0
	switch focus {
	case zzFocusC02:
		gosym.AssertKF(!mixed, "C02: the response holds bytes of one attempt only", "KF-C02-1", connFailAfterWrite)
		if runErr == nil {
			gosym.Assert(lastOK, "C02: success is reported only for a successful attempt")
		}
	case zzFocusC04:
		if !panicked {
			// failover obligations, for the asserted fault classes
			allTried := len(attempted) == n
			if runErr != nil && !startedBefore {
				nonConn := false
				for _, u := range orig {
					if attempted[u.Name] > 0 && !connFailed[u.Name] && !skipped[u.Name] {
						nonConn = true
					}
				}
				gosym.Assert(gosym.Or(allTried, nonConn), "C04: the request fails only when every candidate was tried or skipped (or an attempt failed for a non-connection reason)")
			}
			for _, e := range orig {
				marked := false
				for _, u := range disc.updates {
					if u.Name == e.Name && u.Status == domain.StatusOffline {
						marked = true
						gosym.Assert(u.ConsecutiveFailures == 1, "C04: write-back counts the failure")
						gosym.Assert(u.BackoffMultiplier == 2, "C04/C07: first failure sets multiplier 2")
						gosym.Assert(u.NextCheckTime.Sub(u.LastChecked) == 5*time.Second, "C04/C07: first failure re-checks after check_interval")
					}
				}
				gosym.Assert(marked == connFailed[e.Name], "C04: exactly the endpoints that failed at connection level are written back as offline")
				gosym.Assert(e.Status == domain.StatusHealthy, "C04: the caller's endpoint records are not modified")
			}
			for i := range orig {
				gosym.Assert(eps[i] == orig[i], "C04: the caller's candidate slice is not reordered")
			}
		}
	case zzFocusC19:
		for _, e := range orig {
			gosym.Assert(sel.inflight[e.Name] == 0, "C19: every gauge returns to its start value (also after a panic)")
			gosym.Assert(sel.maxSeen[e.Name] <= 1, "C19: a gauge never exceeds the attempts in flight")
		}
	}
	_ = okSeen
	_ = strings.ToLower
	gosym.Reach("end")
}

type zzReader struct {
	data []byte
	off  int
}

func (r *zzReader) Read(p []byte) (int, error) {
	if r.off >= len(r.data) {
		return 0, io.EOF
	}
	n := copy(p, r.data[r.off:])
	r.off += n
	return n, nil
}

func VerifRetryC01() { zzRetryKernel(zzFocusC01) }
func VerifRetryC02() { zzRetryKernel(zzFocusC02) }
func VerifRetryC03() { zzRetryKernel(zzFocusC03) }
func VerifRetryC04() { zzRetryKernel(zzFocusC04) }
func VerifRetryC19() { zzRetryKernel(zzFocusC19) }
