package proxy

import (
	"context"
	"errors"
	"io"
	"net"
	"net/http"
	"net/url"
	"os"
	"syscall"
	"time"

	"github.com/thushan/olla/internal/adapter/proxy/common"
	"github.com/thushan/olla/internal/adapter/proxy/core"
	"github.com/thushan/olla/internal/core/domain"
	"github.com/thushan/olla/internal/core/ports"
	"github.com/thushan/olla/internal/zzverif/gosym"
)

type zzPick struct{}

func (zzPick) Name() string { return "zz" }
func (zzPick) Select(_ context.Context, eps []*domain.Endpoint) (*domain.Endpoint, error) {
	return eps[gosym.Choice("pick", len(eps))], nil
}
func (zzPick) IncrementConnections(*domain.Endpoint) {}
func (zzPick) DecrementConnections(*domain.Endpoint) {}

type zzTimeoutErr struct{}

func (zzTimeoutErr) Error() string   { return "i/o timeout" }
func (zzTimeoutErr) Timeout() bool   { return true }
func (zzTimeoutErr) Temporary() bool { return true }

// net's own timeout error matches context.DeadlineExceeded (net.timeoutError.Is)
func (zzTimeoutErr) Is(err error) bool { return err == context.DeadlineExceeded }

// raw transport / body-read errors as net/http produces them
const (
	zzRefused = iota
	zzResetBeforeHeaders
	zzUnreachable
	zzHostUnreachable
	zzDialTimeout
	zzNoSuchHost
	zzClosedNoAnswer // explored only
	zzGarbage        // explored only
	zzNumPreHeader
)

func zzPreHeaderErr(k int) error {
	switch k {
	case zzRefused:
		return &net.OpError{Op: "dial", Net: "tcp", Err: os.NewSyscallError("connect", syscall.ECONNREFUSED)}
	case zzResetBeforeHeaders:
		return &net.OpError{Op: "read", Net: "tcp", Err: os.NewSyscallError("read", syscall.ECONNRESET)}
	case zzUnreachable:
		return &net.OpError{Op: "dial", Net: "tcp", Err: os.NewSyscallError("connect", syscall.ENETUNREACH)}
	case zzHostUnreachable:
		return &net.OpError{Op: "dial", Net: "tcp", Err: os.NewSyscallError("connect", syscall.EHOSTUNREACH)}
	case zzDialTimeout:
		return &net.OpError{Op: "dial", Net: "tcp", Err: zzTimeoutErr{}}
	case zzNoSuchHost:
		return &net.OpError{Op: "dial", Net: "tcp", Err: &net.DNSError{Err: "no such host", Name: "backend", IsNotFound: true}}
	case zzClosedNoAnswer:
		return io.EOF
	default:
		return errors.New("malformed HTTP response \"garbage\"")
	}
}

const (
	zzMidReset = iota
	zzMidUnexpectedEOF
	zzMidEOF
	zzMidReadTimeout
	zzMidChunkErr
	zzNumMidBody
)

func zzMidBodyErr(k int) error {
	switch k {
	case zzMidReset:
		return &net.OpError{Op: "read", Net: "tcp", Err: os.NewSyscallError("read", syscall.ECONNRESET)}
	case zzMidUnexpectedEOF:
		return io.ErrUnexpectedEOF
	case zzMidEOF:
		return io.EOF
	case zzMidReadTimeout:
		return &net.OpError{Op: "read", Net: "tcp", Err: zzTimeoutErr{}}
	default:
		return errors.New("invalid byte in chunk length")
	}
}

// VerifEngineErrorComposition: the real ExecuteWithRetry driven by an attempt function that
// reports faults exactly the way both engines do: the raw transport error goes through the real
// common.MakeUserFriendlyError with context "backend" (nothing written yet) or "streaming" (status
// and possibly bytes already written), and the real core.IsConnectionError decides about failover.
func VerifEngineErrorComposition() {
	n := gosym.Param("N")
	names := []string{"A", "B", "C"}
	eps := make([]*domain.Endpoint, n)
	for i := range eps {
		eps[i] = &domain.Endpoint{Name: names[i], URLString: "http://" + names[i], Status: domain.StatusHealthy, BackoffMultiplier: 1, CheckInterval: 5 * time.Second}
	}
	disc := &zzDisc{}
	h := core.NewRetryHandler(disc, zzLog{})
	w := &zzW{h: http.Header{}}
	r := &http.Request{Method: "POST", Header: http.Header{}}
	attempted := map[string]int{}
	failedPre := map[string]bool{}
	onlyAssertedClasses := true
	delivered := false
	midFaultAfterWrite := false
	timeoutSeen := false
	lastOK := false
	dur := []time.Duration{300 * time.Millisecond, 31 * time.Second}
	runErr := h.ExecuteWithRetry(context.Background(), w, r, eps, zzPick{}, &ports.RequestStats{},
		func(ctx context.Context, rw http.ResponseWriter, rq *http.Request, ep *domain.Endpoint, st *ports.RequestStats) error {
			gosym.AssertKF(!w.started, "C02: no attempt is started after an earlier attempt delivered status or bytes to the client", "KF-C02-1", midFaultAfterWrite)
			attempted[ep.Name]++
			gosym.Assert(attempted[ep.Name] == 1, "C04: each candidate is attempted at most once")
			lastOK = false
			d := dur[gosym.Choice("dur", len(dur))]
			switch gosym.Choice("phase", 3) {
			case 0: // fault before any response byte
				k := gosym.Choice("prefault", zzNumPreHeader)
				if k >= zzNoSuchHost {
					onlyAssertedClasses = false
				}
				if k == zzDialTimeout {
					timeoutSeen = true
				}
				failedPre[ep.Name] = true
				return common.MakeUserFriendlyError(zzPreHeaderErr(k), d, "backend", 30*time.Second)
			case 1: // status line (and maybe bytes) delivered, then the body read fails
				rw.WriteHeader(200)
				if gosym.Choice("bytes", 2) == 1 {
					rw.Write([]byte(ep.Name))
				}
				delivered = true
				midFaultAfterWrite = true
				return common.MakeUserFriendlyError(zzMidBodyErr(gosym.Choice("midfault", zzNumMidBody)), d, "streaming", 30*time.Second)
			default:
				rw.WriteHeader(200)
				rw.Write([]byte(ep.Name))
				delivered = true
				lastOK = true
				return nil
			}
		})
	if runErr == nil {
		gosym.Assert(lastOK, "C02: success is reported only for a successful attempt")
	}
	if runErr != nil && !delivered && onlyAssertedClasses {
		// every attempt failed at connection level before any byte: all candidates must have been tried
		gosym.AssertKF(len(attempted) == n, "C04: refuse / reset / unreachable / timed out before any response byte fails over until every candidate was tried", "KF-C04-2", timeoutSeen)
	}
	for _, e := range eps {
		marked := false
		for _, u := range disc.updates {
			if u.Name == e.Name && u.Status == domain.StatusOffline {
				marked = true
			}
		}
		if onlyAssertedClasses && !midFaultAfterWrite {
			gosym.AssertKF(marked == failedPre[e.Name], "C04: an endpoint that failed at connection level is taken out of rotation (written back offline)", "KF-C04-2", timeoutSeen)
		}
	}
	gosym.Reach("end")
}

// VerifEnginePrefixInert decides the second half of C01's "route prefix removed" clause: the
// handlers strip the route prefix (jobs route-prefix-stripped / provider-routes) and hand the
// engines the *remaining* path, so the prefix the engines are configured with must be inert: for
// the configuration the application builds (services/proxy.go createProxyConfiguration leaves
// ProxyPrefix unset and the factory copies GetProxyPrefix() into both engines) no path a handler can
// produce is stripped a second time, whatever bytes it holds.
func VerifEnginePrefixInert() {
	n := gosym.Param("LEN")
	appCfg := &Configuration{ProxyPrefix: ""} // as createProxyConfiguration builds it
	prefix := appCfg.GetProxyPrefix()          // what the factory copies into sherpa/olla Configuration
	gosym.Reach("prefix-computed")
	rest := gosym.String("rest", n)
	p := "/" + rest
	ep := &domain.Endpoint{Name: "A", URLString: "http://backend:11434"}
	ep.URL = mustURL(ep.URLString)
	r := &http.Request{Method: "POST", URL: mustURL("http://olla.local/")}
	r.URL.Path = p
	u := common.BuildTargetURL(r, ep, prefix)
	// remainders without '.' and '%' bytes: dot-segment normalisation is C16's subject (A.6)
	for i := 0; i < len(rest); i++ {
		gosym.Assume(gosym.And(rest[i] != '.', rest[i] != '%'))
	}
	gosym.Reach("canonical")
	gosym.Assert(u.Path == p, "C01: the engines do not strip anything from the path the handlers hand them (configured engine prefix is inert)")
	gosym.Assert(u.Host == "backend:11434", "C01: the upstream host is the endpoint's")
}

func mustURL(s string) *url.URL {
	u, err := url.Parse(s)
	if err != nil {
		panic(err)
	}
	return u
}
