package handlers

import (
	"bytes"
	"context"
	"errors"
	"io"
	"net/http"
	"net/url"
	"strings"

	"github.com/thushan/olla/internal/adapter/translator/anthropic"
	"github.com/thushan/olla/internal/app/middleware"
	"github.com/thushan/olla/internal/config"
	"github.com/thushan/olla/internal/core/domain"
	"github.com/thushan/olla/internal/zzverif/gosym"
)

// behaviours of the scripted proxy engine in streaming mode
const (
	zzSNothing      = iota // every attempt failed: the engine returns an error and writes nothing
	zzSStreamOK            // 200 text/event-stream, K chunks, [DONE]
	zzSStreamBroken        // 200 text/event-stream, one chunk, then the engine reports a mid-stream failure
	zzSError4xx            // backend 4xx with an OpenAI error object
	zzSError5xx            // backend 5xx with an OpenAI error object
	zzSErrorBigText        // backend 5xx with a large non-JSON body (gateway page, > 64 KiB)
	zzSHeadersOnly         // 200, no body at all
	zzNumStreamBehaviours
)

// VerifAnthropicStreamRoute: POST /olla/anthropic/v1/messages with "stream": true through the real
// translationHandler (pipe + proxy goroutine + TransformStreamingResponse), with a scripted engine.
//   C05  no backend answered -> non-2xx Anthropic error object, never a 200 with a fabricated
//        message; a backend's own 4xx/5xx keeps its status and becomes an Anthropic error object;
//        every case terminates (no goroutine left blocked, no hang)
//   C20  whatever the backend answers, the request ends and nothing panics
func VerifAnthropicStreamRoute() {
	s := zzLoadShipped()
	u, _ := url.Parse("http://e:11434")
	healthy := []*domain.Endpoint{{Name: "a", URL: u, URLString: "http://e0:11434", Type: "ollama", Status: domain.StatusHealthy}}
	req := anthropic.AnthropicRequest{Model: "m1", MaxTokens: 16, Stream: true, Messages: []anthropic.AnthropicMessage{{Role: "user", Content: "hi"}}}
	body := gosym.JSONBytes(req)
	behaviour := gosym.Choice("backend", zzNumStreamBehaviours)
	backendStatus := 200
	switch behaviour {
	case zzSError4xx:
		backendStatus = []int{400, 404, 429}[gosym.Choice("status4xx", 3)]
	case zzSError5xx, zzSErrorBigText:
		backendStatus = []int{500, 503}[gosym.Choice("status5xx", 2)]
	}
	K := gosym.Param("K")
	text := gosym.Bytes("delta", 2)
	px := &zzProxy{}
	px.writes = func(w http.ResponseWriter) {
		chunk := func(content string, finish interface{}) string {
			return gosym.JSONLine("data: ", map[string]interface{}{"id": "c1", "model": "m1", "choices": []interface{}{map[string]interface{}{
				"index": float64(0), "finish_reason": finish, "delta": map[string]interface{}{"content": content}}}}) + "\n\n"
		}
		switch behaviour {
		case zzSStreamOK, zzSStreamBroken:
			w.Header().Set("Content-Type", "text/event-stream")
			w.WriteHeader(200)
			n := K
			if behaviour == zzSStreamBroken {
				n = 1
			}
			for i := 0; i < n; i++ {
				line := chunk(string(text), nil)
				if pad := gosym.Param("PAD"); pad > 0 && i == 0 {
					// a very long SSE line (large tool arguments / deltas): PAD bytes of insignificant
					// whitespace in front of the JSON text
					line = "data: " + strings.Repeat(" ", pad) + strings.TrimPrefix(line, "data: ")
				}
				io.WriteString(w, line)
				if gosym.Param("JUNK") == 1 {
					// lines a backend may interleave: a metadata-only object, a comment, broken JSON
					io.WriteString(w, gosym.JSONLine("data: ", map[string]interface{}{})+"\n\n")
					io.WriteString(w, ": keep-alive\n\n")
					io.WriteString(w, "data: {not json\n\n")
				}
			}
			if behaviour == zzSStreamOK {
				io.WriteString(w, chunk("", "stop"))
				io.WriteString(w, "data: [DONE]\n\n")
			}
		case zzSError4xx, zzSError5xx:
			w.Header().Set("Content-Type", "application/json")
			w.WriteHeader(backendStatus)
			w.Write(gosym.JSONBytes(map[string]interface{}{"error": map[string]interface{}{"message": "backend says no", "type": "invalid_request_error"}}))
		case zzSErrorBigText:
			w.Header().Set("Content-Type", "text/html")
			w.WriteHeader(backendStatus)
			page := []byte(strings.Repeat("<p>bad gateway</p>", 4000)) // 72 000 bytes
			for off := 0; off < len(page); off += 8192 {
				end := off + 8192
				if end > len(page) {
					end = len(page)
				}
				w.Write(page[off:end])
			}
		case zzSHeadersOnly:
			w.Header().Set("Content-Type", "text/event-stream")
			w.WriteHeader(200)
		}
	}
	switch behaviour {
	case zzSNothing:
		px.fail = errors.New("all endpoints failed with connection errors: dial tcp: connection refused")
	case zzSStreamBroken:
		px.fail = errors.New("connection lost after 0.1s while reading response - LLM backend disconnected unexpectedly")
	}
	st := &zzStats{}
	a := zzApp(s, healthy, px)
	a.statsCollector = st
	trans := anthropic.NewTranslator(zzLog{}, config.AnthropicTranslatorConfig{Enabled: true, MaxMessageSize: 1 << 20, PassthroughEnabled: false})
	h := a.translationHandler(trans)
	w := &zzW{h: http.Header{}}
	ctx := context.WithValue(context.Background(), middleware.RequestIDKey, "req-1")
	r := (&http.Request{Method: "POST", URL: &url.URL{Path: "/olla/anthropic/v1/messages"}, Header: http.Header{"Content-Type": {"application/json"}},
		Body: io.NopCloser(bytes.NewReader(body)), ContentLength: int64(len(body)), RemoteAddr: "192.0.2.1:999"}).WithContext(ctx)
	g0 := gosym.GoroutinesSettled()
	h(w, r)
	gosym.Reach("handler-returned")
	g1 := gosym.GoroutinesSettled()
	gosym.Assert(g1 <= g0, "C05/C18: the streaming pipeline leaves no goroutine behind")
	gosym.Assert(px.called == 1, "the request is dispatched once to the engine")

	out := string(w.body)
	switch behaviour {
	case zzSNothing:
		gosym.AssertKF(w.status >= 400, "C05: no backend produced a response: the client gets a non-2xx status, never a 200 with a fabricated message", "KF-C05-1", true)
		if w.status >= 400 {
			zzAssertAnthropicError(w)
		}
	case zzSStreamOK:
		gosym.Assert(w.status == 200, "a streamed completion is answered 200")
		gosym.Assert(strings.Contains(out, "event: message_start") && strings.Contains(out, "event: message_stop"), "the client receives a complete Anthropic event stream")
		gosym.Assert(strings.Count(out, "event: content_block_delta") == K, "every backend delta reaches the client")
	case zzSError4xx, zzSError5xx:
		gosym.Assert(w.status == backendStatus, "C05: a backend's own 4xx/5xx answer keeps its status in streaming mode")
		zzAssertAnthropicError(w)
	case zzSErrorBigText:
		gosym.Assert(w.status == backendStatus, "C05: a backend's own 4xx/5xx answer keeps its status in streaming mode (large non-JSON body)")
		zzAssertAnthropicError(w)
	}
	gosym.Assert(len(st.events) == 1, "C19: every translator request is recorded exactly once")
}
