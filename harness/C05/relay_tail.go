package handlers

import (
	"bytes"
	"context"
	"errors"
	"net/http"
	"net/url"

	"github.com/thushan/olla/internal/app/middleware"
	"github.com/thushan/olla/internal/core/constants"
	"github.com/thushan/olla/internal/core/domain"
	"github.com/thushan/olla/internal/core/ports"
	"github.com/thushan/olla/internal/zzverif/gosym"
)

// VerifProxyErrorRelay: the tail of the proxy and provider handlers - what the client ends up with
// when the engine returns.  The engine (scripted) behaves like the real ones: it either writes
// nothing and returns an error, or relays a backend's status line, headers and some body bytes
// and then returns nil or a mid-response error.
//   C05  nothing was produced -> a non-2xx status with an error body
//   C02  once a backend's status line went out, the client's status and body bytes are exactly
//        what that backend produced: Olla appends nothing of its own
func VerifProxyErrorRelay() {
	s := zzLoadShipped()
	u, _ := url.Parse("http://e:11434")
	healthy := []*domain.Endpoint{{Name: "a", URL: u, URLString: "http://e0:11434", Type: "ollama", Status: domain.StatusHealthy}}
	px := &zzProxy{}
	wrote := gosym.Choice("engine-wrote", 3) // 0 nothing, 1 status + headers, 2 status + headers + body bytes
	failed := gosym.Choice("engine-error", 2) == 1
	hasCT := gosym.Choice("backend-sent-content-type", 2) == 1
	status := []int{200, 500}[gosym.Choice("backend-status", 2)]
	data := gosym.Bytes("backend-bytes", 2)
	if wrote == 0 {
		failed = true // an engine that writes nothing has failed (no endpoint answered)
	}
	px.writes = func(w http.ResponseWriter) {
		if wrote == 0 {
			return
		}
		if hasCT {
			w.Header().Set("Content-Type", "application/json")
		}
		w.Header().Set("X-Backend", "a")
		w.WriteHeader(status)
		if wrote == 2 {
			w.Write(data)
		}
	}
	if failed {
		px.fail = errors.New("connection lost after 0.1s while reading response - LLM backend disconnected unexpectedly")
	}
	a := zzApp(s, healthy, px)
	if gosym.Choice("request-names-a-model", 2) == 1 {
		// the request names a model and the routing layer routed it (decision status 200)
		a.inspectorChain.AddInspector(zzModelInspector{"m1"})
		a.modelRegistry = &zzRoutedRegistry{}
	}
	w := &zzW{h: http.Header{}}
	ctx := context.WithValue(context.Background(), middleware.RequestIDKey, "req-1")
	path := "/olla/proxy/api/chat"
	if gosym.Param("ROUTE") == 1 {
		path = "/olla/ollama/api/chat"
	}
	r := (&http.Request{Method: "POST", URL: &url.URL{Path: path}, Header: http.Header{}, Body: http.NoBody, RemoteAddr: "192.0.2.1:999"}).WithContext(ctx)
	if gosym.Param("ROUTE") == 1 {
		a.providerProxyHandler(w, r)
	} else {
		a.proxyHandler(w, r)
	}
	gosym.Assert(px.called == 1, "the request reaches the engine once")
	if wrote == 0 {
		gosym.Reach("nothing-produced")
		gosym.Assert(w.status >= 400, "C05: no backend produced a response: the client gets a non-2xx status")
		gosym.Assert(len(w.body) > 0, "C05: ... with an error body")
		return
	}
	gosym.Reach("response-started")
	gosym.Assert(w.status == status, "C02: the client's status is the backend's")
	want := []byte{}
	if wrote == 2 {
		want = data
	}
	same := len(w.body) == len(want)
	if same {
		for i := range want {
			same = gosym.And(same, w.body[i] == want[i])
		}
	}
	gosym.AssertKF(same, "C02: once a backend's response has started the client's body is exactly the bytes that backend produced (Olla appends nothing)", "KF-C02-2", gosym.And(failed, !hasCT))
	_ = bytes.Equal
}


// zzRoutedRegistry routes every model to all healthy endpoints (decision "routed", status 200).
type zzRoutedRegistry struct{ domain.ModelRegistry }

func (zzRoutedRegistry) GetRoutableEndpointsForModel(_ context.Context, _ string, healthy []*domain.Endpoint) ([]*domain.Endpoint, *domain.ModelRoutingDecision, error) {
	return healthy, ports.NewRoutingDecision("zz", ports.RoutingActionRouted, constants.RoutingReasonModelFound), nil
}
