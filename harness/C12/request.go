package anthropic

import (
	"bytes"
	"context"
	"fmt"
	"io"
	"net/http"

	"github.com/thushan/olla/internal/zzverif/gosym"
)

type zzItem struct {
	kind string // sys | text | result | call
	role string
	a, b string // text | (call id, content) | (call id, name)
	obj  map[string]interface{}
}

var zzLongID = "toolu_01ABCDEFGHJKLMNPQRSTUVWXYZabcdefghijkmnopqrstuv" // > 40 bytes

func zzID(i int) string {
	if gosym.Choice("long_id", 2) == 1 {
		return fmt.Sprintf("%s%d", zzLongID, i)
	}
	return fmt.Sprintf("toolu_%d", i)
}

// VerifTransformRequest: requests from the Anthropic request grammar (M messages, each string or
// up to B blocks of symbolic kind with symbolic one-byte texts; system absent/string/blocks; tools;
// every tool_choice form; optional scalars present/absent/out of range).  Valid requests: the
// OpenAI request carries the same scalars, the system text first and every text fragment, tool
// call and tool result in the client's order.  Invalid requests: an error, nothing translated.
func VerifTransformRequest() {
	M, B := gosym.Param("M"), gosym.Param("B")
	t := zzTranslator()
	req := AnthropicRequest{Model: gosym.String("model", 2), MaxTokens: gosym.IntRange("max_tokens", -1, 4096), Stream: gosym.Bool("stream")}
	valid := req.MaxTokens >= 1
	// optional scalars: absent / all present / out of range (SCALARS=0 keeps them absent)
	profile := 0
	if gosym.Param("SCALARS") == 1 {
		profile = gosym.Choice("scalars", 4)
	}
	switch profile {
	case 1:
		// present-but-zero is a value of its own (seed C12e: a helper treating 0 as "not set")
		zero := gosym.Choice("zero_sampling", 2) == 1
		v, p := 0.5, 0.9
		if zero {
			v, p = 0, 0
		}
		req.Temperature, req.TopP = &v, &p
		req.StopSequences = []string{"END", gosym.String("stopseq", 1)}
		// more stop sequences than OpenAI's documented four are still the client's to send
		for k := []int{0, 3, 7}[gosym.Choice("more_stops", 3)]; k > 0; k-- {
			req.StopSequences = append(req.StopSequences, "S"+string(rune('0'+k)))
		}
	case 2:
		v := 2.5
		req.Temperature = &v
		valid = false
	case 3:
		p := 1.5
		req.TopP = &p
		valid = false
	}
	var want []zzItem
	// system
	switch gosym.Choice("system", 4) {
	case 1:
		s := gosym.String("sys", 1)
		req.System = s
		want = append(want, zzItem{kind: "sys", a: s})
	case 2:
		s1, s2 := gosym.String("sys1", 1), gosym.String("sys2", 1)
		req.System = []interface{}{map[string]interface{}{"type": "text", "text": s1}, map[string]interface{}{"type": "text", "text": s2}}
		want = append(want, zzItem{kind: "sys", a: s1 + s2})
	case 3:
		req.System = ""
	}
	textAfterResult := false
	ncall := 0
	for m := 0; m < M; m++ {
		role := []string{"user", "assistant"}[gosym.Choice("role", 2)]
		if gosym.Choice("content_form", 2) == 0 { // plain string
			s := gosym.String(fmt.Sprintf("msg%d", m), gosym.Choice("len", 2))
			req.Messages = append(req.Messages, AnthropicMessage{Role: role, Content: s})
			if s != "" {
				want = append(want, zzItem{kind: "text", role: role, a: s})
			}
			continue
		}
		nb := gosym.Choice("blocks", B+1)
		blocks := []interface{}{} // an empty list is "content": [] on the wire
		var texts, calls []zzItem // assistant: compared per kind
		sawResult := false
		for b := 0; b < nb; b++ {
			tag := fmt.Sprintf("m%db%d", m, b)
			if role == "user" {
				switch gosym.Choice("user_block", 4) {
				case 0:
					s := gosym.String(tag, 1)
					blocks = append(blocks, map[string]interface{}{"type": "text", "text": s})
					want = append(want, zzItem{kind: "text", role: "user", a: s})
					if sawResult {
						textAfterResult = true
					}
				case 1:
					id, c := zzID(ncall), gosym.String(tag, 1)
					ncall++
					blocks = append(blocks, map[string]interface{}{"type": "tool_result", "tool_use_id": id, "content": c})
					want = append(want, zzItem{kind: "result", a: id, b: c})
					sawResult = true
				case 2:
					blocks = append(blocks, map[string]interface{}{"type": "image", "source": map[string]interface{}{"type": "url", "url": "http://x/y.png"}})
				case 3:
					blocks = append(blocks, map[string]interface{}{"type": "mystery"})
				}
			} else {
				if gosym.Choice("assistant_block", 2) == 0 {
					s := gosym.String(tag, 1)
					blocks = append(blocks, map[string]interface{}{"type": "text", "text": s})
					texts = append(texts, zzItem{kind: "text", role: "assistant", a: s})
				} else {
					id, name := zzID(ncall), fmt.Sprintf("fn_%d", ncall)
					ncall++
					obj := map[string]interface{}{"q": gosym.String(tag, 1)}
					blocks = append(blocks, map[string]interface{}{"type": "tool_use", "id": id, "name": name, "input": obj})
					calls = append(calls, zzItem{kind: "call", a: id, b: name, obj: obj})
				}
			}
		}
		req.Messages = append(req.Messages, AnthropicMessage{Role: role, Content: blocks})
		if role == "assistant" {
			// OpenAI has one content and one tool_calls field per assistant message: order is kept per kind
			want = append(want, texts...)
			want = append(want, calls...)
		}
	}
	if M == 0 {
		valid = false
	}
	// tools and tool_choice
	toolChoiceWant := interface{}(nil)
	tcErr := false
	if gosym.Param("TOOLS") == 1 {
		req.Tools = []AnthropicTool{{Name: "fn_0", Description: "d", InputSchema: map[string]interface{}{"type": "object", "title": "this-request"}}}
		if gosym.Choice("earlier_request_with_same_tool_name", 2) == 1 {
			// the translator is long-lived: an earlier request defined a tool of the same name and
			// description with another schema
			earlier := AnthropicRequest{Model: "m0", MaxTokens: 8, Messages: []AnthropicMessage{{Role: "user", Content: "hi"}},
				Tools: []AnthropicTool{{Name: "fn_0", Description: "d", InputSchema: map[string]interface{}{"type": "object", "title": "earlier-request"}}}}
			er := &http.Request{Method: "POST", Header: http.Header{}, Body: io.NopCloser(bytes.NewReader(gosym.JSONBytes(earlier)))}
			_, eerr := t.TransformRequest(context.Background(), er)
			gosym.Assert(eerr == nil, "the earlier request is translated")
		}
		switch gosym.Choice("tool_choice", 8) {
		case 1:
			req.ToolChoice, toolChoiceWant = "auto", "auto"
		case 2:
			req.ToolChoice, toolChoiceWant = "any", "required"
		case 3:
			req.ToolChoice, toolChoiceWant = "none", "none"
		case 4:
			req.ToolChoice, toolChoiceWant = map[string]interface{}{"type": "auto"}, "auto"
		case 5:
			req.ToolChoice, toolChoiceWant = map[string]interface{}{"type": "any"}, "required"
		case 6:
			req.ToolChoice = map[string]interface{}{"type": "tool", "name": "fn_0"}
			toolChoiceWant = "fn_0"
		case 7:
			req.ToolChoice = map[string]interface{}{"type": "tool"}
			tcErr = true
		}
	}

	r := &http.Request{Method: "POST", Header: http.Header{}, Body: io.NopCloser(bytes.NewReader(gosym.JSONBytes(req)))}
	out, err := t.TransformRequest(context.Background(), r)
	if !valid || tcErr {
		gosym.Assert(err != nil, "an invalid request is rejected (the handler answers 400) and nothing is translated")
		gosym.Reach("invalid")
		return
	}
	gosym.Assert(err == nil, "a valid request is translated")
	if err != nil {
		return
	}
	o := out.OpenAIRequest
	gosym.Assert(zzStr(o["model"]) == req.Model && out.ModelName == req.Model, "model carried over")
	mt, _ := zzInt(o["max_tokens"])
	gosym.Assert(mt == req.MaxTokens, "max_tokens carried over")
	sb, _ := o["stream"].(bool)
	gosym.Assert(sb == req.Stream && out.IsStreaming == req.Stream, "stream flag carried over")
	if req.Temperature != nil {
		f, ok := o["temperature"].(float64)
		gosym.Assert(ok && f == *req.Temperature, "temperature carried over")
	} else {
		_, has := o["temperature"]
		gosym.Assert(!has, "no temperature invented")
	}
	if req.TopP != nil {
		f, ok := o["top_p"].(float64)
		gosym.Assert(ok && f == *req.TopP, "top_p carried over")
	}
	if len(req.StopSequences) > 0 {
		ss, ok := o["stop"].([]string)
		same := ok && len(ss) == len(req.StopSequences)
		for i := 0; same && i < len(ss); i++ {
			same = gosym.And(same, ss[i] == req.StopSequences[i])
		}
		gosym.Assert(same, "stop sequences carried over, all of them, in order")
	}
	gosym.Assert(out.TargetPath == "/v1/chat/completions", "translated requests go to the OpenAI chat path")
	// flatten what was produced
	msgs, _ := o["messages"].([]map[string]interface{})
	var got []zzItem
	for _, mm := range msgs {
		switch zzStr(mm["role"]) {
		case "system":
			got = append(got, zzItem{kind: "sys", a: zzStr(mm["content"])})
		case "user":
			got = append(got, zzItem{kind: "text", role: "user", a: zzStr(mm["content"])})
		case "tool":
			got = append(got, zzItem{kind: "result", a: zzStr(mm["tool_call_id"]), b: zzStr(mm["content"])})
		case "assistant":
			if s, ok := mm["content"].(string); ok {
				got = append(got, zzItem{kind: "text", role: "assistant", a: s})
			}
			tcs, _ := mm["tool_calls"].([]map[string]interface{})
			for _, tc := range tcs {
				fn, _ := tc["function"].(map[string]interface{})
				got = append(got, zzItem{kind: "call", a: zzStr(tc["id"]), b: zzStr(fn["name"]), role: zzStr(fn["arguments"])})
			}
		}
	}
	// merge consecutive text fragments of one role on both sides (the code joins them without separator)
	merge := func(in []zzItem) []zzItem {
		var out []zzItem
		for _, it := range in {
			if it.kind == "text" && len(out) > 0 && out[len(out)-1].kind == "text" && out[len(out)-1].role == it.role {
				out[len(out)-1].a += it.a
				continue
			}
			out = append(out, it)
		}
		return out
	}
	gotM, wantM := merge(got), merge(want)
	kf := func(c bool, label string) {
		gosym.AssertKF(c, label, "KF-C12-1", textAfterResult)
	}
	if len(gotM) > 0 && len(wantM) > 0 && wantM[0].kind == "sys" {
		gosym.Assert(gotM[0].kind == "sys" && gotM[0].a == wantM[0].a, "the system text comes first")
	}
	kf(len(gotM) == len(wantM), "every text fragment, tool call and tool result is carried over, nothing added")
	if len(gotM) == len(wantM) {
		for i := range wantM {
			kf(gotM[i].kind == wantM[i].kind, "turn items appear in the order the client gave them")
			if gotM[i].kind != wantM[i].kind {
				break
			}
			switch wantM[i].kind {
			case "sys", "text":
				kf(gotM[i].a == wantM[i].a, "text fragments unchanged")
			case "result":
				kf(gotM[i].a == wantM[i].a && gotM[i].b == wantM[i].b, "tool result linked to its call id, content unchanged")
			case "call":
				kf(gotM[i].a == wantM[i].a && gotM[i].b == wantM[i].b, "tool call id and name unchanged")
				v, ok := gosym.DecodeJSON([]byte(gotM[i].role))
				am := zzMap(v)
				kf(ok && len(am) == 1 && zzStr(am["q"]) == zzStr(wantM[i].obj["q"]), "tool call arguments are JSON-equal")
			}
		}
	}
	// tools / tool_choice
	if len(req.Tools) > 0 {
		ts, _ := o["tools"].([]map[string]interface{})
		gosym.Assert(len(ts) == 1, "same tool definitions")
		if len(ts) == 1 {
			fn, _ := ts[0]["function"].(map[string]interface{})
			gosym.Assert(zzStr(ts[0]["type"]) == "function" && zzStr(fn["name"]) == "fn_0" && zzStr(fn["description"]) == "d", "tool definition carried over")
			params, _ := fn["parameters"].(map[string]interface{})
			gosym.Assert(zzStr(params["type"]) == "object" && zzStr(params["title"]) == "this-request", "the tool's input schema is this request's own")
		}
		switch w := toolChoiceWant.(type) {
		case nil:
			_, has := o["tool_choice"]
			gosym.Assert(!has, "no tool_choice invented")
		case string:
			if w == "fn_0" {
				tc, _ := o["tool_choice"].(map[string]interface{})
				fn, _ := tc["function"].(map[string]interface{})
				gosym.Assert(zzStr(tc["type"]) == "function" && zzStr(fn["name"]) == "fn_0", "forced tool choice carried over")
			} else {
				gosym.Assert(zzStr(o["tool_choice"]) == w, "tool_choice mapped (auto/any->required/none)")
			}
		}
	}
	gosym.Reach("valid")
}
