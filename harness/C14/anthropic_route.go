package handlers

import (
	"bytes"
	"context"
	"errors"
	"io"
	"net/http"
	"net/url"

	"github.com/thushan/olla/internal/adapter/translator/anthropic"
	"github.com/thushan/olla/internal/app/middleware"
	"github.com/thushan/olla/internal/config"
	"github.com/thushan/olla/internal/core/domain"
	"github.com/thushan/olla/internal/core/ports"
	"github.com/thushan/olla/internal/zzverif/gosym"
)

// zzStats records translator metric events (C19 translator scope).
type zzStats struct {
	ports.StatsCollector
	events []ports.TranslatorRequestEvent
}

func (s *zzStats) RecordTranslatorRequest(e ports.TranslatorRequestEvent) { s.events = append(s.events, e) }

func zzMapOf(v interface{}) map[string]interface{} {
	m, _ := v.(map[string]interface{})
	return m
}
func zzStrOf(v interface{}) string { s, _ := v.(string); return s }

// backend behaviours of the scripted proxy engine
const (
	zzBackendOK          = iota // 200 + well-formed OpenAI completion
	zzBackendErr                // engine returns an error, nothing written (all attempts failed)
	zzBackend4xxJSON            // backend 4xx with an OpenAI error object
	zzBackend5xxJSON            // backend 5xx with an OpenAI error object
	zzBackend5xxText            // backend 5xx with a non-JSON body (gateway page)
	zzBackend200Empty           // backend 200 with {} (no choices)
	zzNumBackendBehaviours
)

// VerifAnthropicRoute: POST /olla/anthropic/v1/messages through the real translationHandler, the
// real Anthropic translator and the shipped profile facts, with a scripted proxy engine, for every
// list of N healthy endpoints with types drawn from native / non-native / auto / unknown profiles,
// passthrough on/off, a body padded with optional whitespace:
//   C14  passthrough <=> enabled and some endpoint's profile declares native Anthropic support; then
//        only native endpoints, path /v1/messages, the client's bytes unchanged, X-Olla-Mode:
//        passthrough; otherwise the translated OpenAI body goes to /v1/chat/completions, no mode header.
//   C05  when no backend produced a response the client gets a non-2xx Anthropic error object; a
//        backend's own 4xx/5xx keeps its status.
func VerifAnthropicRoute() {
	s := zzLoadShipped()
	N := gosym.Param("N")
	types := []string{"vllm", "ollama", "lm-studio", "sglang", "litellm", "openai", "auto", "mystery-engine"}
	var healthy []*domain.Endpoint
	anyNative := false
	native := func(t string) bool {
		if p, err := s.factory.GetProfile(t); err == nil && p.GetName() == t {
			if c := p.GetConfig(); c != nil && c.API.AnthropicSupport != nil && c.API.AnthropicSupport.Enabled {
				return true
			}
		}
		return false
	}
	for i := 0; i < N; i++ {
		t := types[gosym.Choice("type", len(types))]
		u, _ := url.Parse("http://e:11434")
		healthy = append(healthy, &domain.Endpoint{Name: string(rune('a' + i)), URL: u, URLString: "http://e" + string(rune('0'+i)) + ":11434", Type: t, Status: domain.StatusHealthy})
		if native(t) {
			anyNative = true
		}
	}
	passthroughOn := gosym.Choice("passthrough_enabled", 2) == 1
	stream := false
	if gosym.Param("STREAM") == 1 {
		stream = gosym.Bool("stream")
	}
	req := anthropic.AnthropicRequest{Model: gosym.String("model", 2), MaxTokens: 16, Stream: stream,
		Messages: []anthropic.AnthropicMessage{{Role: "user", Content: "hi"}}}
	gosym.Assume(gosym.And(req.Model[0] > ' ', req.Model[1] > ' '))
	pad := []string{"", "\n", " \r\n"}
	body := append(append([]byte(pad[gosym.Choice("lead", 2)]), gosym.JSONBytes(req)...), []byte(pad[gosym.Choice("trail", 3)])...)
	clientBytes := append([]byte{}, body...)

	behaviour := gosym.Choice("backend", zzNumBackendBehaviours)
	backendStatus := 200
	px := &zzProxy{}
	var upstreamBody []byte
	px.writes = func(w http.ResponseWriter) {
		switch behaviour {
		case zzBackendOK:
			w.Header().Set("Content-Type", "application/json")
			w.WriteHeader(200)
			w.Write(gosym.JSONBytes(map[string]interface{}{"id": "c1", "model": "m1", "choices": []interface{}{map[string]interface{}{
				"index": float64(0), "finish_reason": "stop", "message": map[string]interface{}{"role": "assistant", "content": "hello"}}}}))
		case zzBackend4xxJSON, zzBackend5xxJSON:
			w.Header().Set("Content-Type", "application/json")
			w.WriteHeader(backendStatus)
			w.Write(gosym.JSONBytes(map[string]interface{}{"error": map[string]interface{}{"message": "backend says no", "type": "invalid_request_error"}}))
		case zzBackend5xxText:
			w.Header().Set("Content-Type", "text/html")
			w.WriteHeader(backendStatus)
			w.Write([]byte("<html>bad gateway</html>"))
		case zzBackend200Empty:
			w.Header().Set("Content-Type", "application/json")
			w.WriteHeader(200)
			w.Write(gosym.JSONBytes(map[string]interface{}{}))
		}
	}
	switch behaviour {
	case zzBackendErr:
		px.fail = errors.New("all endpoints failed with connection errors: dial tcp: connection refused")
	case zzBackend4xxJSON:
		backendStatus = []int{400, 401, 404, 429}[gosym.Choice("status4xx", 4)]
	case zzBackend5xxJSON, zzBackend5xxText:
		backendStatus = []int{500, 502, 503}[gosym.Choice("status5xx", 3)]
	}
	st := &zzStats{}
	a := zzApp(s, healthy, px)
	a.statsCollector = st
	trans := anthropic.NewTranslator(zzLog{}, config.AnthropicTranslatorConfig{Enabled: true, MaxMessageSize: 1 << 20, PassthroughEnabled: passthroughOn})
	h := a.translationHandler(trans)
	w := &zzW{h: http.Header{}}
	ctx := context.WithValue(context.Background(), middleware.RequestIDKey, "req-1")
	r := (&http.Request{Method: "POST", URL: &url.URL{Path: "/olla/anthropic/v1/messages"}, Header: http.Header{"Content-Type": {"application/json"}},
		Body: io.NopCloser(bytes.NewReader(body)), ContentLength: int64(len(body)), RemoteAddr: "192.0.2.1:999"}).WithContext(ctx)
	// capture what the engine is given
	origWrites := px.writes
	var seenReq *http.Request
	px.writes = func(rw http.ResponseWriter) {
		origWrites(rw)
	}
	_ = seenReq
	h(w, r)
	upstreamBody = px.body
	_ = upstreamBody

	gosym.Assert(px.called == 1, "with healthy endpoints the request is dispatched exactly once to the engine")
	if px.called != 1 {
		return
	}
	wantPassthrough := passthroughOn && anyNative
	mode := w.h.Get("X-Olla-Mode")
	if wantPassthrough {
		gosym.Assert(px.path == "/v1/messages", "passthrough goes to the native messages path")
		for _, e := range px.endpoints {
			gosym.Assert(native(e.Type), "passthrough offers only endpoints whose profile declares native Anthropic support")
		}
		gosym.Assert(bytes.Equal(px.bodySeen, clientBytes), "passthrough forwards the client's body byte-identical")
		gosym.Assert(mode == "passthrough", "X-Olla-Mode tells the client that passthrough was used")
		gosym.Reach("passthrough")
	} else {
		gosym.Assert(px.path == "/v1/chat/completions", "translation goes to the OpenAI chat path")
		v, ok := gosym.DecodeJSON(px.bodySeen)
		o := zzMapOf(v)
		gosym.Assert(ok && zzStrOf(o["model"]) == req.Model && o["messages"] != nil, "a non-native endpoint receives the translated OpenAI body, never the Anthropic body")
		gosym.Assert(mode == "", "no passthrough mode header when the request was translated")
		gosym.Assert(len(px.endpoints) == len(healthy), "translation may use every compatible endpoint")
		gosym.Reach("translation")
	}

	// ---- C05: what the client sees
	if stream && !wantPassthrough {
		// the streamed translation path has its own job (C05 anthropic-stream-route); the scripted
		// engine of this harness answers in the buffered dialect
		gosym.Reach("translation-streaming")
		return
	}
	if wantPassthrough {
		// the engine's response is relayed as is; an engine error with nothing written must become an error
		if behaviour == zzBackendErr {
			gosym.Assert(w.status >= 400, "C05: no backend produced a response: the client gets a non-2xx status")
			zzAssertAnthropicError(w)
		}
		return
	}
	switch behaviour {
	case zzBackendOK:
		gosym.Assert(w.status == 200, "a successful completion is answered 200")
		v, ok := gosym.DecodeJSON(w.body)
		gosym.Assert(ok && zzStrOf(zzMapOf(v)["type"]) == "message", "the client receives an Anthropic message")
	case zzBackendErr:
		gosym.Assert(w.status >= 400, "C05: no backend produced a response: the client gets a non-2xx status")
		zzAssertAnthropicError(w)
	case zzBackend4xxJSON, zzBackend5xxJSON:
		gosym.Assert(w.status == backendStatus, "C05: a backend's own 4xx/5xx answer keeps its status")
		zzAssertAnthropicError(w)
	case zzBackend5xxText:
		gosym.AssertKF(w.status == backendStatus, "C05: a backend's own 4xx/5xx answer keeps its status", "KF-C05-2", true)
		zzAssertAnthropicError(w)
	case zzBackend200Empty:
		gosym.Assert(w.status >= 400, "C05: a completion without choices is not answered 2xx / empty")
		zzAssertAnthropicError(w)
	}
	// C19 (translator scope): the recorded success flag agrees with what the client saw
	if len(st.events) == 1 {
		gosym.AssertKF(st.events[0].Success == (w.status >= 200 && w.status < 300), "C19: a translator request the client saw fail is not recorded as a success", "KF-C19-4", behaviour == zzBackend4xxJSON || behaviour == zzBackend5xxJSON)
	}
	gosym.Assert(len(st.events) == 1, "C19: every translator request is recorded exactly once")
}

func zzAssertAnthropicError(w *zzW) {
	v, ok := gosym.DecodeJSON(bytes.TrimSpace(w.body))
	o := zzMapOf(v)
	e := zzMapOf(o["error"])
	gosym.Assert(ok && zzStrOf(o["type"]) == "error" && zzStrOf(e["type"]) != "" && zzStrOf(e["message"]) != "", "C05: errors on the Anthropic route are Anthropic error objects {type:error,error:{type,message}}")
}
