package common

import "github.com/thushan/olla/internal/util"

func zzResolve(base, rel string) string { return util.ResolveURLPath(base, rel) }
