package common

import (
	"net/http"
	"net/url"
	"strings"

	"github.com/thushan/olla/internal/core/domain"
	"github.com/thushan/olla/internal/zzverif/gosym"
)

var zzBases = []string{"", "/", "/api", "/a/b", "/api/"}

func zzHasDotDotSeg(p string) bool {
	for _, seg := range strings.Split(p, "/") {
		if seg == ".." {
			return true
		}
	}
	return false
}

// VerifBuildTargetURL: decoded request path = route prefix + LEN symbolic bytes (all 256 values),
// QLEN symbolic query bytes, endpoint base path BASE (index into zzBases), preserve_path PRES,
// origin-form or absolute-form request target.
func VerifBuildTargetURL() {
	n, qn := gosym.Param("LEN"), gosym.Param("QLEN")
	base := zzBases[gosym.Param("BASE")]
	preserve := gosym.Param("PRES") == 1
	tail := gosym.String("p", n)
	query := gosym.String("q", qn)
	u := &url.URL{Scheme: "http", Host: "backend:8080", Path: base}
	ep := &domain.Endpoint{URL: u, PreservePath: preserve}
	ru := &url.URL{Path: "/olla/proxy/" + tail, RawQuery: query}
	if gosym.Choice("form", 2) == 1 { // absolute-form request target (accepted by Go's server)
		ru.Scheme, ru.Host = "http", "evil.example:80"
		ru.User = url.UserPassword("u", "p")
	}
	r := &http.Request{URL: ru}
	t := BuildTargetURL(r, ep, "/olla/proxy")
	gosym.Assert(t.Host == "backend:8080", "host and port are the endpoint's")
	gosym.Assert(t.Scheme == "http", "scheme is the endpoint's")
	gosym.Assert(t.User == nil, "no userinfo is taken from the request")
	gosym.Assert(t.Opaque == "", "no opaque part")
	gosym.Assert(t.Fragment == "", "no fragment")
	gosym.Assert(t.RawQuery == query, "query string verbatim")
	gosym.Assert(strings.HasPrefix(t.Path, "/"), "upstream path is rooted (cannot fuse with the authority)")
	if preserve && base != "" && base != "/" {
		b := strings.TrimSuffix(base, "/")
		under := gosym.Or(t.Path == b, strings.HasPrefix(t.Path, b+"/"))
		gosym.AssertKF(under, "preserve_path: the upstream path stays under the endpoint's base path", "KF-C16-1", zzHasDotDotSeg(tail))
	}
	gosym.Observe("path", t.Path)
	gosym.Reach("end")
}

// VerifResolveURLPath: a configured relative health-check / model-listing path (LEN symbolic bytes
// after an optional leading "/") resolves under the endpoint's base path; an absolute URL is
// returned unchanged.
func VerifResolveURLPath() {
	n := gosym.Param("LEN")
	base := []string{"http://h:1", "http://h:1/", "http://h:1/api", "http://h:1/api/", "http://h:1/a/b"}[gosym.Param("BASE")]
	rel := gosym.String("rel", n)
	if gosym.Choice("slash", 2) == 1 {
		rel = "/" + rel
	}
	got := zzResolve(base, rel)
	if parsed, err := url.Parse(rel); err == nil && parsed.IsAbs() {
		gosym.Assert(got == rel, "an absolute URL is returned unchanged")
		gosym.Reach("absolute")
		return
	}
	if rel == "" {
		gosym.Assert(got == base, "empty path resolves to the base URL")
		return
	}
	if zzHasDotDotSeg(rel) {
		// an operator who configures "../x" asks for the parent: outside the claim (DESIGN 5 C16)
		gosym.Reach("configured-dotdot-outside-claim")
		return
	}
	b := strings.TrimSuffix(base, "/")
	under := gosym.Or(got == b, strings.HasPrefix(got, b+"/"), strings.HasPrefix(got, b+"?"), strings.HasPrefix(got, b+"#"))
	gosym.Assert(under, "a relative configured path resolves on the endpoint's host and under its base path")
	gosym.Reach("relative")
}
