package inspector

import (
	"context"
	"io"
	"net/http"
	"net/url"
	"sync"

	"github.com/thushan/olla/internal/core/domain"
	"github.com/thushan/olla/internal/zzverif/gosym"
)

type zzBodyReader struct {
	data []byte
	off  int
}

func (b *zzBodyReader) Read(p []byte) (int, error) {
	if b.off >= len(b.data) {
		return 0, io.EOF
	}
	n := copy(p, b.data[b.off:])
	b.off += n
	return n, nil
}
func (b *zzBodyReader) Close() error { return nil }

// VerifInspectorIsolation: two requests with symbolic JSON-typed bodies B1, B2 (N bytes each,
// declared or chunked length) pass through the real BodyInspector one after the other (the pooled
// buffer the first request returned may be handed to the second: that is sync.Pool's contract);
// afterwards each request's body still reads byte-for-byte what its client sent.
func VerifInspectorIsolation() {
	n := gosym.Param("N")
	bi, err := NewBodyInspector(zzLog{})
	gosym.Assert(err == nil, "inspector can be built")
	if m := gosym.Param("INSPECT_MAX"); m > 0 {
		bi.maxBodySize = int64(m) // the inspection window (1 MiB in production) scaled down: the logic is size-independent
	}
	mk := func(tag string) (*http.Request, []byte) {
		b := gosym.Bytes(tag, n)
		cl := int64(n)
		if gosym.Choice("chunked", 2) == 1 {
			cl = -1
		}
		r := &http.Request{Method: "POST", URL: &url.URL{Path: "/v1/chat/completions"}, Header: http.Header{"Content-Type": {"application/json"}},
			Body: &zzBodyReader{data: append([]byte{}, b...)}, ContentLength: cl}
		return r, b
	}
	if prep := gosym.Param("PREP"); prep > 0 {
		// an earlier, larger request went through the inspector and was forwarded completely: the
		// pool now holds a buffer that has grown to that request's size
		big := make([]byte, prep)
		for i := range big {
			big[i] = 'x'
		}
		r0 := &http.Request{Method: "POST", URL: &url.URL{Path: "/v1/chat/completions"}, Header: http.Header{"Content-Type": {"application/json"}},
			Body: &zzBodyReader{data: big}, ContentLength: int64(prep)}
		gosym.Assert(bi.Inspect(context.Background(), r0, domain.NewRequestProfile("/v1/chat/completions")) == nil, "inspection never fails the request")
		got0, _ := io.ReadAll(r0.Body)
		gosym.Assert(len(got0) == prep, "the earlier request was forwarded whole")
	}
	r1, b1 := mk("body1")
	r2, b2 := mk("body2")
	p1, p2 := domain.NewRequestProfile("/v1/chat/completions"), domain.NewRequestProfile("/v1/chat/completions")
	gosym.Assert(bi.Inspect(context.Background(), r1, p1) == nil, "inspection never fails the request")
	interleaved := gosym.Choice("second_request_inspected_before_first_is_forwarded", 2) == 1
	if interleaved {
		gosym.Assert(bi.Inspect(context.Background(), r2, p2) == nil, "inspection never fails the request")
	}
	got1, _ := io.ReadAll(r1.Body)
	gosym.Assert(len(got1) == n, "the forwarded body has the length the client sent")
	same := true
	for i := 0; i < len(got1) && i < n; i++ {
		same = gosym.And(same, got1[i] == b1[i])
	}
	gosym.AssertKF(same, "the backend receives byte-for-byte the body this client sent, whatever other requests are in flight", "KF-C01-1", interleaved)
	if interleaved {
		got2, _ := io.ReadAll(r2.Body)
		same2 := len(got2) == n
		for i := 0; i < len(got2) && i < n; i++ {
			same2 = gosym.And(same2, got2[i] == b2[i])
		}
		gosym.Assert(same2, "the second request's body is intact as well")
	}
	gosym.Reach("end")
}


// VerifInspectorConcurrent: G requests pass through one BodyInspector concurrently, each goroutine
// inspecting its own request and then reading back (as the proxy engine would) the body it will
// forward, under every interleaving of the pool's Get/Put and the readers' steps: every request
// still forwards byte-for-byte what its own client sent.
func VerifInspectorConcurrent() {
	n, G := gosym.Param("N"), gosym.Param("G")
	bi, err := NewBodyInspector(zzLog{})
	gosym.Assert(err == nil, "inspector can be built")
	reqs := make([]*http.Request, G)
	sent := make([][]byte, G)
	got := make([][]byte, G) // private slot per goroutine
	for g := 0; g < G; g++ {
		sent[g] = gosym.Bytes("body", n)
		reqs[g] = &http.Request{Method: "POST", URL: &url.URL{Path: "/v1/chat/completions"}, Header: http.Header{"Content-Type": {"application/json"}},
			Body: &zzBodyReader{data: append([]byte{}, sent[g]...)}, ContentLength: int64(n)}
	}
	var wg sync.WaitGroup
	wg.Add(G)
	for g := 0; g < G; g++ {
		g := g
		go func() {
			defer wg.Done()
			p := domain.NewRequestProfile("/v1/chat/completions")
			if bi.Inspect(context.Background(), reqs[g], p) != nil {
				return
			}
			gosym.Yield() // the request waits its turn before the engine forwards it
			got[g], _ = io.ReadAll(reqs[g].Body)
		}()
	}
	wg.Wait()
	for g := 0; g < G; g++ {
		same := len(got[g]) == n
		for i := 0; i < len(got[g]) && i < n; i++ {
			same = gosym.And(same, got[g][i] == sent[g][i])
		}
		gosym.Assert(same, "C01: under concurrency every request forwards byte-for-byte the body its own client sent")
	}
	gosym.Reach("end")
}
