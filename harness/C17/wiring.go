package handlers

import (
	"io"
	"net/http"
	"net/url"

	"github.com/thushan/olla/internal/adapter/security"
	"github.com/thushan/olla/internal/config"
	"github.com/thushan/olla/internal/core/ports"
	"github.com/thushan/olla/internal/zzverif/gosym"
)

type zzBodyRd struct {
	data []byte
	off  int
}

func (b *zzBodyRd) Read(p []byte) (int, error) {
	if b.off >= len(b.data) {
		return 0, io.EOF
	}
	n := copy(p, b.data[b.off:])
	b.off += n
	return n, nil
}
func (b *zzBodyRd) Close() error { return nil }

// VerifMountedAdmission: the middleware that is actually mounted on the proxy routes
// (handlers.SecurityAdapters.CreateChainMiddleware over the real rate-limit and size validators):
//
//	O1 requests from one client IP over different source ports share one bucket;
//	O2 a refusal for rate is answered 429;
//	O3 the next handler can never read more than max_body_size, also for a chunked body.
func VerifMountedAdmission() {
	burst, max := gosym.Param("BURST"), int64(gosym.Param("MAX"))
	rl := security.NewRateLimitValidator(config.ServerRateLimits{PerIPRequestsPerMinute: 60, BurstSize: burst}, nil, zzLog{})
	sv := security.NewSizeValidator(config.ServerRequestLimits{MaxBodySize: max, MaxHeaderSize: 1 << 20}, nil, zzLog{})
	sa := &SecurityAdapters{securityChain: ports.NewSecurityChain(sv, rl), logger: zzLog{}}
	admitted, maxRead := 0, 0
	next := http.HandlerFunc(func(w http.ResponseWriter, r *http.Request) {
		admitted++
		b, _ := io.ReadAll(r.Body)
		if len(b) > maxRead {
			maxRead = len(b)
		}
		w.WriteHeader(200)
	})
	h := sa.CreateChainMiddleware()(next)
	K := burst + 2
	distinctPorts := false
	refusedStatus := 0
	for k := 0; k < K; k++ {
		port := gosym.String("port", 2)
		gosym.Assume(gosym.And(port[0] >= '1', port[0] <= '9', port[1] >= '0', port[1] <= '9'))
		if k > 0 {
			distinctPorts = true // the harness does not force equality: different ports are possible
		}
		w := &zzW{h: http.Header{}}
		r := &http.Request{Method: "POST", URL: &url.URL{Path: "/olla/proxy/v1/chat/completions"}, Proto: "HTTP/1.1", Header: http.Header{},
			RemoteAddr: "198.51.100.7:" + port, Body: http.NoBody}
		before := admitted
		h.ServeHTTP(w, r)
		if admitted == before {
			refusedStatus = w.status
		}
	}
	gosym.AssertKF(admitted <= burst, "O1: one client IP cannot exceed its burst by spreading requests over TCP connections (ports)", "KF-C17-1", distinctPorts)
	if admitted < K {
		gosym.AssertKF(refusedStatus == 429, "O2: excess requests are refused with 429", "KF-C17-2", true)
	}
	// O3: chunked oversized body
	admitted, maxRead = 0, 0
	w := &zzW{h: http.Header{}}
	body := &zzBodyRd{data: gosym.Bytes("body", int(max)+2)}
	r := &http.Request{Method: "POST", URL: &url.URL{Path: "/olla/proxy/v1/chat/completions"}, Proto: "HTTP/1.1", Header: http.Header{},
		RemoteAddr: "203.0.113.9:1000", Body: body, ContentLength: -1}
	h.ServeHTTP(w, r)
	gosym.AssertKF(int64(maxRead) <= max, "O3: a chunked body above max_body_size is not forwarded or buffered beyond the limit", "KF-C17-3", true)
	gosym.Reach("end")
}
