package handlers

import (
	"bytes"
	"context"
	"io"
	"net/http"
	"net/url"

	"github.com/thushan/olla/internal/adapter/translator/anthropic"
	"github.com/thushan/olla/internal/app/middleware"
	"github.com/thushan/olla/internal/config"
	"github.com/thushan/olla/internal/core/domain"
	"github.com/thushan/olla/internal/zzverif/gosym"
)

// VerifAnthropicAdmission: the admission clauses of the Anthropic route through the real
// translationHandler:
//   C17  a request body above max_message_size - declared by Content-Length or sent chunked - is
//        answered 413 in Anthropic error format and nothing is sent upstream; a body of exactly the
//        limit is served;
//   C12  an invalid request (each invalidity of the generator) is answered 400 in Anthropic error
//        format and nothing is sent upstream.
func VerifAnthropicAdmission() {
	s := zzLoadShipped()
	u, _ := url.Parse("http://e:11434")
	healthy := []*domain.Endpoint{{Name: "a", URL: u, URLString: "http://e0:11434", Type: "ollama", Status: domain.StatusHealthy}}
	max := gosym.Param("MAX")
	req := anthropic.AnthropicRequest{Model: "m1", MaxTokens: 16, Messages: []anthropic.AnthropicMessage{{Role: "user", Content: "hi"}}}
	// invalid = what olla's own request validation documents as invalid (types.go Validate: model
	// and messages required, max_tokens >= 1, parameter ranges).  An unknown role is not in that
	// list and is forwarded; it is not demanded here.
	invalid := gosym.Choice("invalid", 5)
	switch invalid {
	case 1:
		req.MaxTokens = 0
	case 2:
		req.Messages = nil
	case 3:
		t := 2.5
		req.Temperature = &t
	case 4:
		req.Model = ""
	}
	body := gosym.JSONBytes(req)
	// pad with insignificant whitespace to a chosen total size around the limit
	size := max + []int{-1, 0, 1, 7}[gosym.Choice("size", 4)]
	if size < len(body) {
		size = len(body)
	}
	body = append(body, bytes.Repeat([]byte(" "), size-len(body))...)
	declared := int64(len(body))
	if gosym.Choice("chunked", 2) == 1 {
		declared = -1
	}
	px := &zzProxy{}
	px.writes = func(w http.ResponseWriter) {
		w.Header().Set("Content-Type", "application/json")
		w.WriteHeader(200)
		w.Write(gosym.JSONBytes(map[string]interface{}{"id": "c1", "model": "m1", "choices": []interface{}{map[string]interface{}{
			"index": float64(0), "finish_reason": "stop", "message": map[string]interface{}{"role": "assistant", "content": "hello"}}}}))
	}
	a := zzApp(s, healthy, px)
	a.statsCollector = &zzStats{}
	trans := anthropic.NewTranslator(zzLog{}, config.AnthropicTranslatorConfig{Enabled: true, MaxMessageSize: int64(max), PassthroughEnabled: false})
	w := &zzW{h: http.Header{}}
	ctx := context.WithValue(context.Background(), middleware.RequestIDKey, "req-1")
	r := (&http.Request{Method: "POST", URL: &url.URL{Path: "/olla/anthropic/v1/messages"}, Header: http.Header{"Content-Type": {"application/json"}},
		Body: io.NopCloser(bytes.NewReader(body)), ContentLength: declared, RemoteAddr: "192.0.2.1:999"}).WithContext(ctx)
	a.translationHandler(trans)(w, r)
	gosym.Observe("status", w.status)
	switch {
	case len(body) > max:
		gosym.Reach("oversized")
		gosym.Assert(w.status == http.StatusRequestEntityTooLarge, "C17: an Anthropic request above max_message_size gets 413")
		gosym.Assert(px.called == 0, "C17: an oversized request is not forwarded")
		zzAssertAnthropicError(w)
	case invalid != 0:
		gosym.Reach("invalid")
		gosym.Assert(w.status == http.StatusBadRequest, "C12: an invalid request is answered 400")
		gosym.Assert(px.called == 0, "C12: nothing is sent upstream for an invalid request")
		zzAssertAnthropicError(w)
	default:
		gosym.Reach("served")
		gosym.Assert(px.called == 1 && w.status == 200, "a valid request within the limit is served")
	}
}
