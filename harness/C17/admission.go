package security

import (
	"context"
	"io"
	"net/http"
	"net/url"
	"sync"

	"github.com/thushan/olla/internal/config"
	"github.com/thushan/olla/internal/core/ports"
	"github.com/thushan/olla/internal/zzverif/gosym"
)

type zzSink struct {
	h      http.Header
	status int
}

func (w *zzSink) Header() http.Header { return w.h }
func (w *zzSink) WriteHeader(c int) {
	if w.status == 0 {
		w.status = c
	}
}
func (w *zzSink) Write(b []byte) (int, error) {
	if w.status == 0 {
		w.status = 200
	}
	return len(b), nil
}

type zzBody struct {
	data []byte
	off  int
}

func (b *zzBody) Read(p []byte) (int, error) {
	if b.off >= len(b.data) {
		return 0, io.EOF
	}
	n := copy(p, b.data[b.off:])
	b.off += n
	return n, nil
}
func (b *zzBody) Close() error { return nil }

// VerifBodyCap: SizeValidator.CreateMiddleware with max_body_size MAX: for every declared
// Content-Length (symbolic, including -1 = chunked / unknown) and every actual body length 0..2*MAX
// the next handler can never read more than MAX bytes; a declared length above MAX is refused 413
// and the next handler is not called.
func VerifBodyCap() {
	max := int64(gosym.Param("MAX"))
	sv := NewSizeValidator(config.ServerRequestLimits{MaxBodySize: max, MaxHeaderSize: 1 << 20}, nil, zzLog{})
	actual := gosym.Choice("actual_len", int(2*max)+1)
	declared := int64(gosym.IntRange("content_length", -1, int(2*max)+1))
	gosym.Assume(gosym.Or(declared == -1, declared == int64(actual))) // a declared length is truthful (the server enforces it)
	body := &zzBody{data: gosym.Bytes("body", actual)}
	called := 0
	read := 0
	next := http.HandlerFunc(func(w http.ResponseWriter, r *http.Request) {
		called++
		b, _ := io.ReadAll(r.Body)
		read = len(b)
		w.WriteHeader(200)
	})
	w := &zzSink{h: http.Header{}}
	r := &http.Request{Method: "POST", URL: &url.URL{Path: "/olla/proxy/v1/chat/completions"}, Proto: "HTTP/1.1", Header: http.Header{"Content-Type": {"application/json"}},
		Body: body, ContentLength: declared, RemoteAddr: "198.51.100.7:4242"}
	sv.CreateMiddleware()(next).ServeHTTP(w, r)
	gosym.Assert(int64(read) <= max, "a body above max_body_size is never read beyond the limit, declared or chunked")
	if declared > max {
		gosym.Assert(called == 0, "a request announcing an oversized body is not forwarded")
		gosym.Assert(w.status == 413, "an oversized body is refused with 413")
	} else {
		gosym.Assert(called == 1, "a request within the limit is forwarded")
	}
	gosym.Reach("end")
}

// VerifRateLimit: RateLimitValidator.CreateMiddleware with per-IP RATE requests/minute and burst
// BURST: K requests from one client IP over symbolic source ports, mixed health / non-health paths,
// with 0 s or 30 s passing between them: the admitted non-health requests never exceed
// burst + rate x elapsed, refusals are 429, and ports / paths do not open extra buckets.
func VerifRateLimit() {
	K, rate, burst := gosym.Param("K"), gosym.Param("RATE"), gosym.Param("BURST")
	rl := NewRateLimitValidator(config.ServerRateLimits{PerIPRequestsPerMinute: rate, BurstSize: burst, HealthRequestsPerMinute: rate}, nil, zzLog{})
	admitted, admittedHealth := 0, 0
	next := http.HandlerFunc(func(w http.ResponseWriter, r *http.Request) {
		if r.URL.Path == "/internal/health" {
			admittedHealth++
		} else {
			admitted++
		}
		w.WriteHeader(200)
	})
	h := rl.CreateMiddleware()(next)
	elapsedHalfMinutes := 0
	for k := 0; k < K; k++ {
		if k > 0 && gosym.Choice("wait_30s", 2) == 1 {
			gosym.AdvanceBy(30 * 1000000000)
			elapsedHalfMinutes++
		}
		port := gosym.String("port", 2)
		gosym.Assume(gosym.And(port[0] >= '1', port[0] <= '9', port[1] >= '0', port[1] <= '9'))
		path := []string{"/olla/proxy/v1/chat/completions", "/olla/ollama/api/chat", "/internal/health"}[gosym.Choice("path", 3)]
		w := &zzSink{h: http.Header{}}
		r := &http.Request{Method: "POST", URL: &url.URL{Path: path}, Header: http.Header{}, RemoteAddr: "198.51.100.7:" + port, Body: http.NoBody}
		before := admitted + admittedHealth
		h.ServeHTTP(w, r)
		if admitted+admittedHealth == before {
			gosym.Assert(w.status == 429, "an excess request is refused with 429")
		} else {
			gosym.Assert(w.status == 200, "an admitted request reaches the handler")
		}
		// tokens: burst at first contact, refilled at rate per minute (capped at burst)
		allowance := burst + rate*elapsedHalfMinutes/2
		gosym.Assert(admitted <= allowance, "admitted requests from one IP never exceed burst + rate x elapsed, whatever ports and paths it uses")
		gosym.Assert(admittedHealth <= allowance, "health-check requests have their own bucket with the same bound")
	}
	gosym.Reach("end")
}

// VerifRateLimitConcurrent: G concurrent requests of one client IP on its first contact (burst
// BURST, no time passes), under every interleaving of their synchronisation steps: at most BURST
// are admitted - concurrent senders do not get a bucket each.
func VerifRateLimitConcurrent() {
	G, burst := gosym.Param("G"), gosym.Param("BURST")
	rl := NewRateLimitValidator(config.ServerRateLimits{PerIPRequestsPerMinute: 1, BurstSize: burst}, nil, zzLog{})
	verdict := make([]int, G) // private slot per goroutine
	var wg sync.WaitGroup
	wg.Add(G)
	for i := 0; i < G; i++ {
		i := i
		go func() {
			defer wg.Done()
			res, err := rl.Validate(context.Background(), ports.SecurityRequest{ClientID: "198.51.100.7", Endpoint: "/olla/proxy/x", Method: "POST"})
			verdict[i] = 1
			if err == nil && res.Allowed {
				verdict[i] = 2
			}
		}()
	}
	wg.Wait()
	admitted, done := 0, 0
	for _, v := range verdict {
		if v > 0 {
			done++
		}
		if v == 2 {
			admitted++
		}
	}
	gosym.Assert(done == G, "every request gets a verdict")
	gosym.Assert(admitted <= burst, "concurrent first-contact requests of one IP share one bucket: at most burst are admitted")
	gosym.Assert(admitted >= 1, "the burst is usable")
	gosym.Reach("end")
}
