package balancer

import (
	"context"
	"fmt"

	"github.com/thushan/olla/internal/core/domain"
	"github.com/thushan/olla/internal/core/ports"
	"github.com/thushan/olla/internal/zzverif/gosym"
)

// zzGauges is a gauge source with an arbitrary non-negative connection vector.
type zzGauges struct {
	ports.StatsCollector // remaining methods are never called by the selector
	m                    map[string]int64
}

func (g *zzGauges) GetConnectionStats() map[string]int64 { return g.m }
func (g *zzGauges) RecordConnection(e *domain.Endpoint, d int) {
	g.m[e.URLString] += int64(d)
}

// VerifLeastConn: N endpoints, every status assignment, arbitrary non-negative gauge vector:
// the selected endpoint is a routable member whose gauge is minimal among the routable ones.
func VerifLeastConn() {
	N := gosym.Param("N")
	g := &zzGauges{m: map[string]int64{}}
	eps := make([]*domain.Endpoint, N)
	routable := 0
	for i := range eps {
		st := zzStatuses[gosym.Choice("status", len(zzStatuses))]
		name := string(rune('a' + i))
		eps[i] = &domain.Endpoint{Name: name, URLString: "http://" + name, Status: st}
		if gosym.Choice("tracked", 2) == 1 { // an endpoint the collector has never seen reads as 0
			c := gosym.Int64(fmt.Sprintf("conn%d", i))
			gosym.Assume(c >= 0) // gauges are never negative: proved for the real collector in C19
			g.m[eps[i].URLString] = c
		}
		if st.IsRoutable() {
			routable++
		}
	}
	sel := &LeastConnectionsSelector{statsCollector: g}
	e, err := sel.Select(context.Background(), eps)
	if routable == 0 {
		gosym.Assert(err != nil, "error when nothing routable")
		gosym.Reach("none-routable")
		return
	}
	gosym.Assert(err == nil, "no error when something is routable")
	member := -1
	for i, x := range eps {
		if x == e {
			member = i
		}
	}
	gosym.Assert(member >= 0, "selected endpoint is a member of the input list")
	gosym.Assert(e.Status.IsRoutable(), "selected endpoint is routable")
	min := true
	for _, x := range eps {
		if x.Status.IsRoutable() {
			min = gosym.And(min, g.m[e.URLString] <= g.m[x.URLString])
		}
	}
	gosym.Assert(min, "least-connections: the selected endpoint has a minimal gauge among the routable ones")
	gosym.Observe("pick", member)
	gosym.Reach("picked")
}
