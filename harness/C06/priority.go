package balancer

import (
	"context"
	"fmt"

	"github.com/thushan/olla/internal/core/domain"
	"github.com/thushan/olla/internal/zzverif/gosym"
)

// VerifPriority (universal part): N endpoints, every status assignment, unconstrained symbolic
// priorities, every rand outcome, every tie order of sort.Slice: the result is a routable member
// of the list whose priority is maximal among the routable ones.
func VerifPriority() {
	N := gosym.Param("N")
	sel := NewPrioritySelector(nil)
	eps := make([]*domain.Endpoint, N)
	routable := 0
	for i := range eps {
		st := zzStatuses[gosym.Choice("status", len(zzStatuses))]
		eps[i] = &domain.Endpoint{Name: string(rune('a' + i)), Status: st, Priority: gosym.Int(fmt.Sprintf("prio%d", i))}
		if st.IsRoutable() {
			routable++
		}
	}
	e, err := sel.Select(context.Background(), eps)
	if routable == 0 {
		gosym.Assert(err != nil, "error when nothing routable")
		gosym.Reach("none-routable")
		return
	}
	gosym.Assert(err == nil, "no error when something is routable")
	member := -1
	for i, x := range eps {
		if x == e {
			member = i
		}
	}
	gosym.Assert(member >= 0, "selected endpoint is a member of the input list")
	gosym.Assert(e.Status.IsRoutable(), "selected endpoint is routable")
	top := true
	for _, x := range eps {
		if x.Status.IsRoutable() {
			top = gosym.And(top, e.Priority >= x.Priority)
		}
	}
	gosym.Assert(top, "priority: the selected endpoint is in the highest-priority routable tier")
	gosym.Reach("picked")
}

// VerifPriorityPickable (existential part): for every status assignment and every priority
// assignment over {0,1,2}, every member of the top tier is returned on some feasible path, i.e.
// for some value of the random source.
func VerifPriorityPickable() {
	N := gosym.Param("N")
	sel := NewPrioritySelector(nil)
	eps := make([]*domain.Endpoint, N)
	cfg := ""
	maxP, any := -1, false
	for i := range eps {
		si := gosym.Choice("status", 4) // healthy, busy, warming, offline
		p := gosym.Choice("prio", 3)
		st := zzStatuses[si]
		eps[i] = &domain.Endpoint{Name: string(rune('a' + i)), Status: st, Priority: p}
		cfg += fmt.Sprintf("%d%d.", si, p)
		if st.IsRoutable() {
			any = true
			if p > maxP {
				maxP = p
			}
		}
	}
	if !any {
		return
	}
	for i, x := range eps {
		if x.Status.IsRoutable() && x.Priority == maxP {
			gosym.Expect(fmt.Sprintf("cfg %s picks %d", cfg, i))
		}
	}
	e, err := sel.Select(context.Background(), eps)
	gosym.Assert(err == nil, "no error when something is routable")
	for i, x := range eps {
		if x == e {
			gosym.Reach(fmt.Sprintf("cfg %s picks %d", cfg, i))
		}
	}
}
