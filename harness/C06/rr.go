package balancer

import (
	"context"
	"sync"

	"github.com/thushan/olla/internal/core/domain"
	"github.com/thushan/olla/internal/zzverif/gosym"
)

var zzStatuses = []domain.EndpointStatus{domain.StatusHealthy, domain.StatusBusy, domain.StatusWarming, domain.StatusOffline, domain.StatusUnhealthy, domain.StatusUnknown, "weird"}

// VerifRR: N endpoints with every status assignment, symbolic 64-bit start counter:
// n*K consecutive selections give each of the n routable endpoints exactly K (C06), each result
// is a routable member of the list (C03).
func VerifRR() {
	N, K := gosym.Param("N"), gosym.Param("K")
	sel := NewRoundRobinSelector(nil)
	c0 := gosym.Uint64("c0")
	gosym.Assume(c0 < 1<<63) // documented precondition: fewer than 2^64 selections (DESIGN 3.5)
	sel.counter = c0
	eps := make([]*domain.Endpoint, N)
	routable := 0
	for i := range eps {
		st := zzStatuses[gosym.Choice("status", len(zzStatuses))]
		eps[i] = &domain.Endpoint{Name: string(rune('a' + i)), Status: st}
		if st.IsRoutable() {
			routable++
		}
	}
	if routable == 0 {
		_, err := sel.Select(context.Background(), eps)
		gosym.Assert(err != nil, "error when nothing routable")
		gosym.Reach("none-routable")
		return
	}
	counts := make(map[*domain.Endpoint]int)
	for j := 0; j < routable*K; j++ {
		e, err := sel.Select(context.Background(), eps)
		gosym.Assert(err == nil, "no error when something is routable")
		member := -1
		for i, x := range eps {
			if x == e {
				member = i
			}
		}
		gosym.Assert(member >= 0, "selected endpoint is a member of the input list")
		gosym.Assert(e.Status.IsRoutable(), "selected endpoint is routable")
		gosym.Observe("pick", member)
		counts[e]++
	}
	for _, x := range eps {
		if x.Status.IsRoutable() {
			gosym.Assert(counts[x] == K, "round-robin: each routable endpoint gets exactly K of n*K selections")
		}
	}
	gosym.Reach("fair")
}

// VerifRRConcurrent: G goroutines share one round-robin selector over n routable endpoints and
// make K selections each, under every interleaving of their atomic steps: every endpoint is
// selected exactly G*K/n times (G*K a multiple of n).
func VerifRRConcurrent() {
	G, K, n := gosym.Param("G"), gosym.Param("K"), gosym.Param("N")
	sel := NewRoundRobinSelector(nil)
	c0 := gosym.Uint64("c0")
	gosym.Assume(c0 < 1<<63)
	sel.counter = c0
	eps := make([]*domain.Endpoint, n)
	for i := range eps {
		eps[i] = &domain.Endpoint{Name: string(rune('a' + i)), Status: domain.StatusHealthy}
	}
	picks := make([][]int, G) // one private slot per goroutine: no shared writes in the harness
	var wg sync.WaitGroup
	wg.Add(G)
	for g := 0; g < G; g++ {
		g := g
		go func() {
			defer wg.Done()
			for k := 0; k < K; k++ {
				e, err := sel.Select(context.Background(), eps)
				if err == nil {
					for i, x := range eps {
						if x == e {
							picks[g] = append(picks[g], i)
						}
					}
				}
			}
		}()
	}
	wg.Wait()
	counts := make([]int, n)
	total := 0
	for _, ps := range picks {
		for _, i := range ps {
			counts[i]++
			total++
		}
	}
	gosym.Assert(total == G*K, "all selections succeeded")
	for i := range counts {
		gosym.Assert(counts[i]*n == G*K, "round-robin under concurrency: each endpoint gets exactly its share of G*K selections")
	}
	gosym.Reach("end")
}
