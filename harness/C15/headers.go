package core

import (
	"net/http"
	"net/url"
	"strings"

	"github.com/thushan/olla/internal/zzverif/gosym"
)

var zzCred = []string{"Authorization", "Cookie", "X-Api-Key", "X-Auth-Token", "Proxy-Authorization"}
var zzHop = []string{"Connection", "Keep-Alive", "Proxy-Authenticate", "Proxy-Authorization", "TE", "Trailer", "Transfer-Encoding", "Upgrade"}
var zzOwned = []string{"X-Proxied-By", "Via", "X-Forwarded-For", "X-Forwarded-Proto", "X-Forwarded-Host", "X-Real-IP"}

func zzFoldsAny(name string, list []string) bool {
	r := false
	for _, s := range list {
		r = gosym.Or(r, strings.EqualFold(name, s))
	}
	return r
}

func zzTokenByte(c byte) bool {
	return gosym.Or(gosym.And(c >= 'a', c <= 'z'), gosym.And(c >= 'A', c <= 'Z'), gosym.And(c >= '0', c <= '9'), c == '-', c == '_', c == '.', c == '!', c == '~')
}

// VerifCopyHeaders: one client header with a fully symbolic token name of LEN bytes and 1..2
// symbolic values, in a context of ordinary headers and optional pre-existing Via / X-Forwarded-* /
// X-Real-IP field lines with 1..2 values each.
func VerifCopyHeaders() {
	n := gosym.Param("LEN")
	name := gosym.String("name", n)
	for i := 0; i < n; i++ {
		gosym.Assume(zzTokenByte(name[i]))
	}
	// the symbolic header is a different field from the two context headers
	gosym.Assume(gosym.Not(zzFoldsAny(name, []string{"Content-Type", "X-Custom"})))
	nvals := 1 + gosym.Choice("nvals", 2)
	vals := make([]string, nvals)
	for i := range vals {
		vals[i] = gosym.String("val", 1)
	}
	orig := &http.Request{Method: "POST", URL: &url.URL{Path: "/x"}, Host: "olla.local", RemoteAddr: "192.0.2.7:4711",
		Header: http.Header{"Content-Type": {"application/json"}, "X-Custom": {"keep"}}}
	orig.Header[name] = vals
	// pre-existing proxy-chain headers
	pre := map[string][]string{}
	switch gosym.Choice("via", 3) {
	case 1:
		pre["Via"] = []string{"1.1 first"}
	case 2:
		pre["Via"] = []string{"1.1 first", "1.0 second"}
	}
	switch gosym.Choice("xff", 3) {
	case 1:
		pre["X-Forwarded-For"] = []string{"203.0.113.7"}
	case 2:
		pre["X-Forwarded-For"] = []string{"203.0.113.7", "198.51.100.2"}
	}
	if gosym.Choice("xri", 2) == 1 {
		pre["X-Real-IP"] = []string{"198.51.100.9"}
	}
	if gosym.Choice("xfo", 2) == 1 {
		pre["X-Forwarded-Proto"] = []string{"https"}
		pre["X-Forwarded-Host"] = []string{"front.example"}
	}
	collide := zzFoldsAny(name, zzOwned)
	for k, v := range pre {
		orig.Header[http.CanonicalHeaderKey(k)] = v // as the HTTP server stores them ("X-Real-Ip")
	}
	proxy := &http.Request{Method: "POST", URL: &url.URL{Path: "/x"}}
	CopyHeaders(proxy, orig)

	sensitive := gosym.Or(zzFoldsAny(name, zzCred), zzFoldsAny(name, zzHop))
	// (1) nothing sensitive reaches the backend under any key spelling
	for k := range proxy.Header {
		gosym.Assert(gosym.Not(gosym.Or(zzFoldsAny(k, zzCred), zzFoldsAny(k, zzHop))), "no credential or hop-by-hop header reaches the backend, whatever its letter case")
	}
	// (2) every other client header arrives unchanged
	gosym.Assert(len(proxy.Header["Content-Type"]) == 1 && proxy.Header["Content-Type"][0] == "application/json", "ordinary client header unchanged")
	gosym.Assert(len(proxy.Header["X-Custom"]) == 1 && proxy.Header["X-Custom"][0] == "keep", "ordinary client header unchanged")
	if !sensitive && !collide {
		got := proxy.Header[name]
		gosym.Assert(len(got) == nvals, "non-sensitive client header keeps all its values")
		if len(got) == nvals {
			same := true
			for i := range got {
				same = gosym.And(same, got[i] == vals[i])
			}
			gosym.Assert(same, "non-sensitive client header values unchanged")
		}
		gosym.Reach("copied")
	}
	if sensitive {
		gosym.Reach("sensitive-name")
	}
	// (3) olla's additions never drop a pre-existing value
	if !collide {
		for k, v := range pre {
			joined := strings.Join(proxy.Header[http.CanonicalHeaderKey(k)], ", ")
			for _, one := range v {
				multi := len(v) >= 2 && (k == "Via" || k == "X-Forwarded-For")
				gosym.AssertKF(strings.Contains(joined, one), "olla's Via / X-Forwarded-* / X-Real-IP handling keeps every pre-existing value", "KF-C15-1", multi)
			}
		}
	}
	gosym.Reach("end")
}

// VerifCopyHeadersSpellings: a cheap, concrete companion of VerifCopyHeaders - every sensitive name
// in six spellings (canonical, lower, UPPER, aLtErNaTiNg, Word-UPPERTAIL, first letter lower) with
// one or two values.  It decides nothing the symbolic job does not already decide on the unchanged
// code; it exists so that a change which makes the symbolic job blow its budget is still caught.
func VerifCopyHeadersSpellings() {
	names := append(append([]string{}, zzCred...), zzHop...)
	base := names[gosym.Choice("name", len(names))]
	spell := func(s string, how int) string {
		b := []byte(s)
		wordStart := true
		for i, c := range b {
			isLetter := (c >= 'a' && c <= 'z') || (c >= 'A' && c <= 'Z')
			up, lo := c&^0x20, c|0x20
			if isLetter {
				switch how {
				case 1:
					b[i] = lo
				case 2:
					b[i] = up
				case 3:
					if i%2 == 0 {
						b[i] = lo
					} else {
						b[i] = up
					}
				case 4:
					b[i] = up // Word-UPPERTAIL: every letter upper (first already is)
					if wordStart {
						b[i] = up
					}
				case 5:
					if i == 0 {
						b[i] = lo
					}
				}
			}
			wordStart = c == '-'
		}
		return string(b)
	}
	name := spell(base, gosym.Choice("spelling", 6))
	vals := []string{"v1", "v2"}[:1+gosym.Choice("nvals", 2)]
	orig := &http.Request{Method: "POST", URL: &url.URL{Path: "/x"}, Host: "olla.local", RemoteAddr: "192.0.2.7:4711",
		Header: http.Header{"Content-Type": {"application/json"}, "X-Custom": {"keep"}}}
	orig.Header[name] = vals
	proxy := &http.Request{Method: "POST", URL: &url.URL{Path: "/x"}}
	CopyHeaders(proxy, orig)
	for k := range proxy.Header {
		gosym.Assert(!(zzFoldsAny(k, zzCred) || zzFoldsAny(k, zzHop)), "no credential or hop-by-hop header reaches the backend, whatever its letter case")
	}
	gosym.Assert(len(proxy.Header["X-Custom"]) == 1 && proxy.Header["X-Custom"][0] == "keep", "ordinary client header unchanged")
	gosym.Reach("end")
}
