package sherpa

import (
	"github.com/thushan/olla/internal/core/constants"
	"github.com/thushan/olla/internal/core/domain"
	"github.com/thushan/olla/internal/core/ports"
	"github.com/thushan/olla/internal/zzverif/gosym"
)

const zzEngineName = "sherpa"

// zzNewEngine builds the real Sherpa engine the way the factory does (prefix as the application
// configures it) with a small stream buffer and the harness' read timeout.
func zzNewEngine(disc ports.DiscoveryService, sel domain.EndpointSelector, stats ports.StatsCollector, profile string, world *zzBackends) *Service {
	cfg := &Configuration{}
	cfg.ProxyPrefix = constants.ContextRoutePrefixKey
	cfg.ReadTimeout = zzReadTimeout
	cfg.StreamBufferSize = 8
	cfg.Profile = profile
	svc, err := NewService(disc, sel, cfg, stats, nil, zzLog{})
	if err != nil {
		panic(err)
	}
	svc.EventBus.Shutdown() // event publication is environment, not the subject
	svc.EventBus = nil
	if !gosym.Symbolic() {
		svc.transport.RegisterProtocol("zz", world)
	}
	return svc
}

func zzCleanup(svc *Service) { svc.transport.CloseIdleConnections() }

// the sherpa engine has no per-endpoint circuit breaker
var zzSkippedOpen = 0
var zzOpened = map[string]bool{}

func zzPreState(*Service, []*domain.Endpoint) { zzSkippedOpen = 0 }
