package olla

import (
	"github.com/thushan/olla/internal/core/constants"
	"github.com/thushan/olla/internal/core/domain"
	"github.com/thushan/olla/internal/core/ports"
	"github.com/thushan/olla/internal/zzverif/gosym"
)

const zzEngineName = "olla"

// zzNewEngine builds the real Olla engine the way the factory does (prefix as the application
// configures it) with a small stream buffer and the harness' read timeout.
func zzNewEngine(disc ports.DiscoveryService, sel domain.EndpointSelector, stats ports.StatsCollector, profile string, world *zzBackends) *Service {
	cfg := &Configuration{}
	cfg.ProxyPrefix = constants.ContextRoutePrefixKey
	cfg.ReadTimeout = zzReadTimeout
	cfg.StreamBufferSize = 8
	cfg.Profile = profile
	svc, err := NewService(disc, sel, cfg, stats, nil, zzLog{})
	if err != nil {
		panic(err)
	}
	svc.EventBus.Shutdown() // event publication is environment, not the subject
	svc.EventBus = nil
	if !gosym.Symbolic() {
		for host := range world.scripts {
			_ = host
		}
		for _, name := range []string{"a", "b", "c", "x"} {
			svc.getOrCreateEndpointPool(name).transport.RegisterProtocol("zz", world)
		}
	}
	return svc
}

func zzCleanup(svc *Service) { svc.Cleanup() }

// zzSkippedOpen counts the candidates whose circuit the harness opened before the request.
var zzSkippedOpen = 0

// zzOpened: the candidates whose circuit the harness opened
var zzOpened = map[string]bool{}

// zzPreState: with BREAKER=1 each candidate's breaker may have been opened by earlier requests
// (five recorded failures, just now - so the 30 s open period has not passed).
func zzPreState(svc *Service, eps []*domain.Endpoint) {
	zzSkippedOpen = 0
	zzOpened = map[string]bool{}
	if gosym.Param("BREAKER") != 1 {
		return
	}
	for _, ep := range eps {
		switch gosym.Choice("breaker-state", 3) {
		case 1: // open: five failures just now
			cb := svc.GetCircuitBreaker(ep.Name)
			for i := 0; i < circuitBreakerThreshold; i++ {
				cb.RecordFailure()
			}
			zzSkippedOpen++
			zzOpened[ep.Name] = true
		case 2: // closed, one failure short of tripping: the next failed attempt opens it
			cb := svc.GetCircuitBreaker(ep.Name)
			for i := 0; i < circuitBreakerThreshold-1; i++ {
				cb.RecordFailure()
			}
		}
	}
}
