package sherpa

// Engine-level harness shared by both proxy engines (the package clause is rewritten to sherpa or
// olla; the engine-specific constructor is in ctor_<engine>.go).  It drives the real
// ProxyRequestToEndpoints -> ExecuteWithRetry -> proxyToSingleEndpoint -> streaming loop with
// scripted backends behind the engine's own *http.Transport:
//   - symbolic run: (*http.Transport).RoundTrip is overridden by zzTransportRoundTrip (registry
//     "overrides"), which hands the request to the scripted backend;
//   - native replay: the same scripted backend is registered on the engine's transport(s) with
//     Transport.RegisterProtocol for the URL scheme "zz", so the real RoundTrip delegates to it.
// Time is discrete-event (TIMERS_DES=1): a timer fires only when every goroutine is blocked, the
// earliest deadline first.  Natively the same timers are real, with a 2 s read timeout, 5 ms
// (and, with PAUSES=1, 0.9 s / 1.4 s) pauses and stalls that last until the response body is closed or the request is cancelled.

import (
	"context"
	"errors"
	"io"
	"net"
	"net/http"
	"net/url"
	"os"
	"strings"
	"sync"
	"syscall"
	"time"

	"github.com/thushan/olla/internal/adapter/balancer"
	"github.com/thushan/olla/internal/core/constants"
	"github.com/thushan/olla/internal/core/domain"
	"github.com/thushan/olla/internal/core/ports"
	"github.com/thushan/olla/internal/zzverif/gosym"
)

const (
	zzReadTimeout = 2 * time.Second // natively real time: wide margins against scheduling noise
	zzShortPause  = 5 * time.Millisecond
	zzMidPause    = zzReadTimeout * 45 / 100
	zzLongPause   = zzReadTimeout * 70 / 100
)

// ---- body steps
const (
	zzStepChunk     = iota // data available at once
	zzStepPause            // the backend pauses for less than the read timeout, then sends
	zzStepEOF              // clean end of the response
	zzStepChunkEOF         // last data together with io.EOF (a Reader may do that)
	zzStepStall            // the backend stops sending: Read blocks until the body is closed / request cancelled
	zzStepReset            // connection reset mid-body
	zzStepTruncated        // the connection is closed before the declared end of the body (io.ErrUnexpectedEOF)
	zzNumSteps
	// only with PAUSES=1: longer pauses, still below the read timeout
	zzStepPauseMid       = zzNumSteps     // 0.45 x read timeout, then data
	zzStepPauseLong      = zzNumSteps + 1 // 0.70 x read timeout, then data
	zzNumStepsWithPauses = zzNumSteps + 2
)

// ---- pre-header outcomes of a backend
const (
	zzAnswers = iota
	zzRefused
	zzResetBeforeHeaders
	zzDialTimeout
	zzClosedNoAnswer // explored only
	zzGarbage        // explored only
	zzNumFaults
)

type zzTimeoutErr struct{}

func (zzTimeoutErr) Error() string   { return "i/o timeout" }
func (zzTimeoutErr) Timeout() bool   { return true }
func (zzTimeoutErr) Temporary() bool { return true }

// net's own timeout error matches context.DeadlineExceeded (net.timeoutError.Is)
func (zzTimeoutErr) Is(err error) bool { return err == context.DeadlineExceeded }

func zzFaultErr(k int) error {
	switch k {
	case zzRefused:
		return &net.OpError{Op: "dial", Net: "tcp", Err: os.NewSyscallError("connect", syscall.ECONNREFUSED)}
	case zzResetBeforeHeaders:
		return &net.OpError{Op: "read", Net: "tcp", Err: os.NewSyscallError("read", syscall.ECONNRESET)}
	case zzDialTimeout:
		return &net.OpError{Op: "dial", Net: "tcp", Err: zzTimeoutErr{}}
	case zzClosedNoAnswer:
		return io.EOF
	default:
		return errors.New("net/http: HTTP/1.x transport connection broken: malformed HTTP response \"garbage\"")
	}
}

func zzIsAssertedConnFault(k int) bool {
	return k == zzRefused || k == zzResetBeforeHeaders || k == zzDialTimeout
}

type zzStep struct {
	kind int
	data []byte
}

type zzScript struct {
	fault  int
	status int
	ctype  string
	steps  []zzStep
}

// zzAttempt is what one backend saw.
type zzAttempt struct {
	host     string
	method   string
	path     string
	rawQuery string
	header   http.Header
	body     []byte
	script   *zzScript
	// response side
	produced   []byte // bytes the backend's Read handed out
	reads      int
	bodyClosed bool
	ended      bool // Read returned EOF or an error
	stalled    bool
	// for C18: what the client had when the backend was asked for more
	lagAtRead []int // per Read call: produced-so-far minus flushed-to-client (streaming) / written-to-client
	readTimes []int64
}

// zzClient records what the client sees.
type zzClient struct {
	mu               sync.Mutex
	h                http.Header
	status           int
	body             []byte
	flushed          int // len(body) at the last Flush
	started          bool
	writesAfterAbort int
}

func (c *zzClient) Header() http.Header { return c.h }
func (c *zzClient) WriteHeader(s int) {
	c.mu.Lock()
	defer c.mu.Unlock()
	if !c.started {
		c.status, c.started = s, true
	}
}
func (c *zzClient) Write(b []byte) (int, error) {
	c.mu.Lock()
	defer c.mu.Unlock()
	if !c.started {
		c.status, c.started = 200, true
	}
	c.body = append(c.body, b...)
	return len(b), nil
}
func (c *zzClient) Flush() {
	c.mu.Lock()
	defer c.mu.Unlock()
	c.flushed = len(c.body)
}
func (c *zzClient) snapshot() (written, flushed int) {
	c.mu.Lock()
	defer c.mu.Unlock()
	return len(c.body), c.flushed
}

// zzBackends is the scripted world behind the transport.
type zzBackends struct {
	mu           sync.Mutex
	scripts      map[string]*zzScript // by URL host
	attempts     []*zzAttempt
	client       *zzClient
	cancelClient context.CancelFunc
	abortAtRead  int // the client goes away when the backend is asked for its k-th read (1-based), 0 = never
	totalReads   int
	streaming    bool
	known        map[string]bool
	steps        int
	ctypes       int
	pauses       bool
	big          int // > 0: every chunk carries this many known bytes in front of its two arbitrary ones (spans several engine reads)
}

var zzCTypes = []string{"text/event-stream", "application/octet-stream", "application/x-ndjson", "application/json"}

// draw decides the behaviour of one backend.
func (b *zzBackends) draw() *zzScript {
	sc := &zzScript{fault: gosym.Choice("fault", zzNumFaults)}
	if sc.fault != zzAnswers {
		return sc
	}
	sc.status = []int{200, 404, 500}[gosym.Choice("status", 3)]
	sc.ctype = zzCTypes[gosym.Choice("ctype", b.ctypes)]
	kinds := zzNumSteps
	if b.pauses {
		kinds = zzNumStepsWithPauses
	}
	for k := 0; k < b.steps; k++ {
		kind := gosym.Choice("step", kinds)
		st := zzStep{kind: kind}
		if kind == zzStepChunk || kind == zzStepPause || kind == zzStepChunkEOF || kind == zzStepPauseMid || kind == zzStepPauseLong {
			st.data = gosym.Bytes("chunk", 2)
			if b.big > 0 {
				pre := make([]byte, b.big)
				for i := range pre {
					pre[i] = byte('a' + i%23)
				}
				st.data = append(pre, st.data...)
			}
		}
		sc.steps = append(sc.steps, st)
		if kind == zzStepEOF || kind == zzStepChunkEOF || kind == zzStepStall || kind == zzStepReset || kind == zzStepTruncated {
			break
		}
	}
	return sc
}

var zzWorld *zzBackends

// zzTransportRoundTrip replaces (*http.Transport).RoundTrip under the interpreter.
func zzTransportRoundTrip(_ *http.Transport, req *http.Request) (*http.Response, error) {
	return zzWorld.RoundTrip(req)
}

func (b *zzBackends) RoundTrip(req *http.Request) (*http.Response, error) {
	a := &zzAttempt{host: req.URL.Host, method: req.Method, path: req.URL.Path, rawQuery: req.URL.RawQuery, header: req.Header.Clone()}
	if req.Body != nil {
		a.body, _ = io.ReadAll(req.Body)
		req.Body.Close()
	}
	b.mu.Lock()
	a.script = b.scripts[req.URL.Host]
	if a.script == nil && b.known[req.URL.Host] {
		// the behaviour of a backend is decided when it is first contacted (only contacted
		// backends matter; a backend keeps its behaviour for the rest of the request)
		a.script = b.draw()
		b.scripts[req.URL.Host] = a.script
	}
	b.attempts = append(b.attempts, a)
	b.mu.Unlock()
	if a.script == nil {
		return nil, errors.New("no such backend")
	}
	if err := req.Context().Err(); err != nil {
		return nil, err
	}
	if a.script.fault != zzAnswers {
		return nil, zzFaultErr(a.script.fault)
	}
	h := http.Header{}
	h.Set("Content-Type", a.script.ctype)
	h.Set("X-Backend", req.URL.Host)
	return &http.Response{StatusCode: a.script.status, Status: http.StatusText(a.script.status), Proto: "HTTP/1.1", ProtoMajor: 1, ProtoMinor: 1,
		Header: h, ContentLength: -1, Request: req,
		Body: &zzBody{w: b, a: a, ctx: req.Context(), closed: make(chan struct{})}}, nil
}

type zzBody struct {
	w            *zzBackends
	a            *zzAttempt
	ctx          context.Context
	closed       chan struct{}
	once         sync.Once
	i            int
	rest         []byte // what is left of a chunk larger than the engine's read buffer
	eofAfterRest bool
}

func (r *zzBody) Close() error {
	r.once.Do(func() {
		r.w.mu.Lock()
		r.a.bodyClosed = true
		r.w.mu.Unlock()
		close(r.closed)
	})
	return nil
}

func (r *zzBody) Read(p []byte) (int, error) {
	w := r.w
	w.mu.Lock()
	w.totalReads++
	abort := w.abortAtRead != 0 && w.totalReads == w.abortAtRead
	written, flushed := w.client.snapshot()
	seen := written
	if w.streaming {
		seen = flushed
	}
	r.a.reads++
	r.a.lagAtRead = append(r.a.lagAtRead, len(r.a.produced)-seen)
	r.a.readTimes = append(r.a.readTimes, gosym.VirtualNow())
	w.mu.Unlock()
	if abort {
		w.cancelClient()
	}
	select {
	case <-r.closed:
		return 0, errors.New("http: read on closed response body")
	default:
	}
	if err := r.ctx.Err(); err != nil {
		r.end()
		return 0, err
	}
	if len(r.rest) > 0 {
		n := r.give(p, r.rest)
		if len(r.rest) == 0 && r.eofAfterRest {
			r.end()
			return n, io.EOF
		}
		return n, nil
	}
	if r.i >= len(r.a.script.steps) {
		r.end()
		return 0, io.EOF
	}
	st := r.a.script.steps[r.i]
	r.i++
	switch st.kind {
	case zzStepPause:
		time.Sleep(zzShortPause)
		return r.give(p, st.data), nil
	case zzStepPauseMid:
		time.Sleep(zzMidPause)
		return r.give(p, st.data), nil
	case zzStepPauseLong:
		time.Sleep(zzLongPause)
		return r.give(p, st.data), nil
	case zzStepChunk:
		return r.give(p, st.data), nil
	case zzStepChunkEOF:
		n := r.give(p, st.data)
		if len(r.rest) > 0 {
			r.eofAfterRest = true
			return n, nil
		}
		r.end()
		return n, io.EOF
	case zzStepEOF:
		r.end()
		return 0, io.EOF
	case zzStepReset:
		r.end()
		return 0, &net.OpError{Op: "read", Net: "tcp", Err: os.NewSyscallError("read", syscall.ECONNRESET)}
	case zzStepTruncated:
		r.end()
		return 0, io.ErrUnexpectedEOF
	default: // stall
		// a backend that has gone silent stays silent: every later Read blocks as well
		r.i--
		w.mu.Lock()
		r.a.stalled = true
		w.mu.Unlock()
		select {
		case <-r.closed:
			r.end()
			return 0, errors.New("http: read on closed response body")
		case <-r.ctx.Done():
			r.end()
			return 0, r.ctx.Err()
		}
	}
}

func (r *zzBody) give(p []byte, data []byte) int {
	n := copy(p, data)
	r.rest = data[n:]
	r.w.mu.Lock()
	r.a.produced = append(r.a.produced, data[:n]...)
	r.w.mu.Unlock()
	return n
}

func (r *zzBody) end() {
	r.w.mu.Lock()
	r.a.ended = true
	r.w.mu.Unlock()
}

// zzPick: an arbitrary selector honouring the contract (member of its argument).
type zzPick struct{ inflight map[string]int }

func (*zzPick) Name() string { return "zz" }
func (*zzPick) Select(_ context.Context, eps []*domain.Endpoint) (*domain.Endpoint, error) {
	return eps[gosym.Choice("pick", len(eps))], nil
}
func (s *zzPick) IncrementConnections(e *domain.Endpoint) { s.inflight[e.Name]++ }
func (s *zzPick) DecrementConnections(e *domain.Endpoint) { s.inflight[e.Name]-- }

// zzStats counts what the engine reports to the stats collector.
type zzStats struct {
	ports.StatsCollector
	mu      sync.Mutex
	success map[string]int
	errors  map[string]int
	conns   map[string]int
}

func (s *zzStats) RecordRequest(ep *domain.Endpoint, status string, _ time.Duration, _ int64) {
	s.mu.Lock()
	defer s.mu.Unlock()
	if status == "success" {
		s.success[ep.Name]++
	} else {
		s.errors[ep.Name]++
	}
}
func (s *zzStats) RecordConnection(ep *domain.Endpoint, d int) {
	s.mu.Lock()
	defer s.mu.Unlock()
	s.conns[ep.Name] += d
}
func (s *zzStats) GetConnectionStats() map[string]int64 {
	s.mu.Lock()
	defer s.mu.Unlock()
	out := map[string]int64{}
	for k, v := range s.conns {
		out[k] = int64(v)
	}
	return out
}
func (s *zzStats) RecordModelRequest(string, *domain.Endpoint, string, time.Duration, int64) {}
func (s *zzStats) RecordModelError(string, *domain.Endpoint, string)                         {}
func (s *zzStats) RecordModelTokens(string, int64, int64)                                    {}
func (s *zzStats) RecordSecurityViolation(ports.SecurityViolation)                           {}
func (s *zzStats) RecordDiscovery(*domain.Endpoint, bool, time.Duration)                     {}

func zzBytesEq(a, b []byte) bool {
	if len(a) != len(b) {
		return false
	}
	eq := true
	for i := range a {
		eq = gosym.And(eq, a[i] == b[i])
	}
	return eq
}

// VerifEngine: one client request through the real engine.
//
//	N      candidates (each with its own scripted backend)
//	STEPS  body steps of an answering backend
//	BODY   request body length (symbolic bytes)
//	PROFILE 0 auto, 1 streaming, 2 standard
//	ABORT  1: the client may go away at a symbolic read
//	BIG    known bytes in front of every chunk's two arbitrary ones (chunks larger than the engine's 8-byte read buffer)
//	FOCUS  which obligations are asserted (1 C01, 2 C02, 4 C04, 18 C18, 19 C19, 0 all)
func VerifEngine() {
	n := gosym.Param("N")
	steps := gosym.Param("STEPS")
	profile := []string{constants.ConfigurationProxyProfileAuto, constants.ConfigurationProxyProfileStreaming, constants.ConfigurationProxyProfileStandard}[gosym.Param("PROFILE")]
	names := []string{"a", "b", "c"}
	eps := make([]*domain.Endpoint, n)
	world := &zzBackends{scripts: map[string]*zzScript{}, client: &zzClient{h: http.Header{}}}
	zzWorld = world
	world.known, world.steps, world.ctypes = map[string]bool{}, steps, gosym.Param("CTYPES")
	world.pauses = gosym.Param("PAUSES") == 1
	world.big = gosym.Param("BIG")
	if !gosym.Symbolic() {
		gosym.SettleWindow = 200 * time.Millisecond
		if world.pauses {
			gosym.SettleWindow = zzLongPause + 200*time.Millisecond
		}
	}
	for i := range eps {
		u, _ := url.Parse("zz://" + names[i] + ".backend:11434")
		eps[i] = &domain.Endpoint{Name: names[i], URL: u, URLString: u.String(), Status: domain.StatusHealthy, BackoffMultiplier: 1, CheckInterval: 5 * time.Second}
		world.known[u.Host] = true
	}
	// the repository knows one more healthy endpoint that is NOT a candidate of this request (it was
	// excluded by model / provider / capability routing)
	ou, _ := url.Parse("zz://x.backend:11434")
	outsider := &domain.Endpoint{Name: "x", URL: ou, URLString: ou.String(), Status: domain.StatusHealthy, BackoffMultiplier: 1, CheckInterval: 5 * time.Second}
	world.known[ou.Host] = true
	disc := &zzDisc{healthy: append(append([]*domain.Endpoint{}, eps...), outsider)}
	pick := &zzPick{inflight: map[string]int{}}
	stats := &zzStats{success: map[string]int{}, errors: map[string]int{}, conns: map[string]int{}}
	var sel domain.EndpointSelector = pick
	if k := gosym.Param("SEL"); k > 0 {
		// the real balancers, and candidates in any status (C03: only routable ones are contacted)
		switch k {
		case 1:
			sel = balancer.NewRoundRobinSelector(stats)
		case 2:
			sel = balancer.NewPrioritySelector(stats)
		default:
			sel = balancer.NewLeastConnectionsSelector(stats)
		}
		statuses := []domain.EndpointStatus{domain.StatusHealthy, domain.StatusBusy, domain.StatusWarming, domain.StatusOffline, domain.StatusUnhealthy, domain.StatusUnknown}
		for _, ep := range eps {
			ep.Status = statuses[gosym.Choice("status", len(statuses))]
			if k == 2 {
				ep.Priority = 1 + gosym.Choice("priority", 2)
			}
		}
	}
	svc := zzNewEngine(disc, sel, stats, profile, world)
	// engine-specific pre-state (olla: per-endpoint circuit breakers shaped by earlier requests)
	zzPreState(svc, eps)
	if gosym.Param("ABORT") == 1 {
		world.abortAtRead = gosym.Choice("abort-at-read", steps+2)
	}

	// the client's request
	bodyBytes := gosym.Bytes("body", gosym.Param("BODY"))
	clientCtx, cancel := context.WithCancel(context.Background())
	world.cancelClient = cancel
	method := "POST"
	if gosym.Param("METHODS") == 1 {
		method = []string{"POST", "GET", "PUT", "DELETE", "PATCH"}[gosym.Choice("method", 5)]
	}
	r, _ := http.NewRequestWithContext(clientCtx, method, "http://olla.local/v1/chat/completions?stream=true&x=%20y", io.NopCloser(&zzReader{data: append([]byte{}, bodyBytes...)}))
	r.Header.Set("Content-Type", "application/json")
	r.Header.Set("X-Custom", "kept")
	r.Header.Set("Authorization", "Bearer secret")
	r.Header.Set("Cookie", "session=1")
	r.Header.Set("X-Api-Key", "k")
	r.Header.Set("Connection", "keep-alive")
	r.Header.Set("Keep-Alive", "timeout=5")
	r.Header.Set("Proxy-Authorization", "Basic x")
	r.Header.Set("X-Forwarded-For", "203.0.113.9")
	r.RemoteAddr = "10.1.2.3:5555"
	world.streaming = profile == constants.ConfigurationProxyProfileStreaming

	// a request that never returns is a violation of C18 (and C05)
	gosym.OnHang("", false)
	g0 := gosym.GoroutinesSettled()
	rs := &ports.RequestStats{StartTime: gosym.TimeNow()}
	err := svc.ProxyRequestToEndpoints(clientCtx, world.client, r, eps, rs, zzLog{})
	gosym.Reach("engine-returned")
	g1 := gosym.GoroutinesSettled()
	cancel()

	focus := gosym.Param("FOCUS")
	is := func(f int) bool { return focus == 0 || focus == f }
	cl := world.client
	aborted := clientCtx.Err() != nil && world.abortAtRead != 0 && world.totalReads >= world.abortAtRead

	// ---------------------------------------------------------------- per-attempt facts
	var answered *zzAttempt
	seen := map[string]int{}
	for _, a := range world.attempts {
		seen[a.host]++
		if is(4) {
			gosym.Assert(seen[a.host] == 1, "C04: each candidate is attempted at most once")
		}
		if is(3) {
			var ep *domain.Endpoint
			for _, e := range eps {
				if e.URL.Host == a.host {
					ep = e
				}
			}
			gosym.Assert(ep != nil, "C03: only members of the candidate set are contacted")
			if ep != nil {
				gosym.Assert(ep.Status.IsRoutable(), "C03: only endpoints whose status is routable are contacted")
			}
		}
		if is(1) {
			gosym.Assert(a.method == method, "C01: the backend receives the client's method")
			gosym.Assert(a.path == "/v1/chat/completions", "C01: the backend receives the request path")
			gosym.Assert(a.rawQuery == "stream=true&x=%20y", "C01: the backend receives the query string verbatim")
			gosym.Assert(zzBytesEq(a.body, bodyBytes), "C01: every attempt carries the client's body byte for byte")
			gosym.Assert(a.header.Get("X-Custom") == "kept", "C01: end-to-end request headers reach the backend")
		}
		if is(15) {
			for _, h := range []string{"Authorization", "Cookie", "X-Api-Key", "Proxy-Authorization", "Connection", "Keep-Alive"} {
				gosym.Assert(len(a.header.Values(h)) == 0, "C15: no attempt (first or failed-over) carries the client's credentials or hop-by-hop headers")
			}
			gosym.Assert(a.header.Get("X-Custom") == "kept", "C15: other client headers arrive unchanged on every attempt")
			xff := a.header.Values("X-Forwarded-For")
			gosym.Assert(len(xff) > 0 && strings.Contains(strings.Join(xff, ", "), "203.0.113.9"), "C15: the existing X-Forwarded-For value is kept when Olla appends its own")
		}
		if a.script != nil && a.script.fault == zzAnswers {
			if is(2) {
				gosym.Assert(answered == nil, "C02: no further attempt is made once a backend has answered")
			}
			answered = a
		}
	}

	// ---------------------------------------------------------------- C02: one attempt's response
	if is(2) && answered != nil {
		gosym.Reach("answered")
		gosym.Assert(cl.started && cl.status == answered.script.status, "C02: the client gets the answering backend's status")
		gosym.Assert(cl.h.Get("X-Backend") == answered.host && len(cl.h.Values("X-Backend")) == 1, "C02: end-to-end response headers are the answering backend's only")
		if !aborted {
			gosym.Assert(zzBytesEq(cl.body, answered.produced), "C02/C18: the client receives exactly the bytes the answering backend produced, in order")
		}
	}
	if is(2) && answered == nil {
		gosym.Assert(!cl.started && len(cl.body) == 0, "C02: nothing is delivered when no backend answered")
		gosym.Assert(err != nil, "C05: a request no backend answered is reported as a failure to the handler")
	}

	// ---------------------------------------------------------------- C04: transparency
	if is(4) {
		onlyAssertedFaults := true
		for _, a := range world.attempts {
			if a.script.fault != zzAnswers && !zzIsAssertedConnFault(a.script.fault) {
				onlyAssertedFaults = false
			}
		}
		if answered == nil && onlyAssertedFaults && !aborted {
			gosym.Assert(len(world.attempts)+zzSkippedOpen == n, "C04: after connection-level failures and open circuits only, the request fails only when every candidate was tried or skipped")
		}
		for _, a := range world.attempts {
			if a.script.fault != zzAnswers && zzIsAssertedConnFault(a.script.fault) {
				off := false
				for _, u := range disc.updates {
					if u.URL.Host == a.host && u.Status == domain.StatusOffline {
						off = true
					}
				}
				gosym.Assert(off, "C04: an endpoint that failed at connection level is taken out of rotation")
			}
		}
	}

	// ---------------------------------------------------------------- C18: liveness of the stream
	if is(18) && answered != nil {
		streamingResp := profile != constants.ConfigurationProxyProfileStandard && (answered.script.ctype == "text/event-stream" || answered.script.ctype == "application/x-ndjson")
		if streamingResp && !aborted {
			for k, lag := range answered.lagAtRead {
				_ = k
				gosym.Assert(lag == 0, "C18: every chunk is flushed to the client before the backend is asked for the next one")
			}
		}
		if answered.stalled && !aborted {
			gosym.Reach("stalled")
			gosym.Assert(err != nil, "C18: a stalled backend ends the request with an error")
			gosym.Assert(answered.bodyClosed, "C18: the upstream response is closed after a stall")
			if gosym.Symbolic() && len(answered.readTimes) > 0 {
				gosym.Assert(gosym.VirtualNow()-answered.readTimes[len(answered.readTimes)-1] <= int64(zzReadTimeout), "C18: the stall is cut off within the read timeout")
			}
		}
		cleanScript := true
		var all []byte
		for _, st := range answered.script.steps {
			if st.kind == zzStepStall || st.kind == zzStepReset || st.kind == zzStepTruncated {
				cleanScript = false
			}
			all = append(all, st.data...)
		}
		if cleanScript && !aborted {
			gosym.Reach("clean-stream")
			gosym.Assert(err == nil, "C18: a backend that only pauses for less than the read timeout is not cut off")
			gosym.Assert(zzBytesEq(cl.body, all), "C18: a completed stream is delivered whole")
		}
		if aborted {
			gosym.Reach("aborted")
			gosym.Assert(answered.bodyClosed, "C18: when the client goes away the upstream response is released")
		}
	}
	if is(18) {
		gosym.Assert(g1 <= g0, "C18: no goroutine outlives the request")
	}

	// ---------------------------------------------------------------- C19: gauges and counters
	if is(19) {
		for _, ep := range eps {
			gosym.Assert(pick.inflight[ep.Name] == 0 && stats.conns[ep.Name] == 0, "C19: connection gauges return to zero")
			tried := seen[ep.URL.Host]
			if zzOpened[ep.Name] {
				// selected-but-skipped (open circuit): the engine may record the refusal as one failed
				// attempt; it was not contacted
				gosym.Assert(tried == 0 && stats.success[ep.Name] == 0 && stats.errors[ep.Name] <= 1, "C19: an endpoint skipped for its open circuit is not contacted and recorded at most once")
			} else {
				gosym.Assert(stats.success[ep.Name]+stats.errors[ep.Name] == tried, "C19: every attempt is recorded exactly once per endpoint")
			}
		}
		ps, _ := svc.GetStats(context.Background())
		// the answering backend's response ended cleanly (not by stall, reset or truncation)
		complete := false
		if answered != nil {
			complete = true
			for _, st := range answered.script.steps {
				if st.kind == zzStepStall || st.kind == zzStepReset || st.kind == zzStepTruncated {
					complete = false
				}
			}
		}
		clientOK := answered != nil && complete && err == nil && !aborted && cl.status < 400
		gosym.AssertKF(ps.TotalRequests == ps.SuccessfulRequests+ps.FailedRequests, "C19: proxy totals are conserved (total = successes + failures)", "KF-C19-1", int(ps.SuccessfulRequests+ps.FailedRequests) >= 2)
		if !clientOK {
			gosym.AssertKF(ps.SuccessfulRequests == 0, "C19: a request the client did not receive in full with a success status is not recorded as a success", "KF-C19-2",
				answered != nil && (cl.status >= 400 || aborted))
		} else {
			gosym.Assert(ps.SuccessfulRequests == 1, "C19: a request served in full with a success status is recorded as one success")
		}
	}
	zzCleanup(svc)
}

type zzReader struct {
	data []byte
	off  int
}

func (r *zzReader) Read(p []byte) (int, error) {
	if r.off >= len(r.data) {
		return 0, io.EOF
	}
	n := copy(p, r.data[r.off:])
	r.off += n
	return n, nil
}
