package routing

import (
	"context"
	"errors"
	"fmt"

	"github.com/thushan/olla/internal/config"
	"github.com/thushan/olla/internal/core/domain"
	"github.com/thushan/olla/internal/zzverif/gosym"
)

type zzDiscovery struct {
	refreshFails bool
	getFails     bool
	after        []*domain.Endpoint
}

func (d *zzDiscovery) GetEndpoints(context.Context) ([]*domain.Endpoint, error) { return d.after, nil }
func (d *zzDiscovery) GetHealthyEndpoints(context.Context) ([]*domain.Endpoint, error) {
	if d.getFails {
		return nil, errors.New("repository unavailable")
	}
	return d.after, nil
}
func (d *zzDiscovery) RefreshEndpoints(context.Context) error {
	if d.refreshFails {
		return errors.New("refresh failed")
	}
	return nil
}
func (d *zzDiscovery) UpdateEndpointStatus(context.Context, *domain.Endpoint) error { return nil }

var zzStrategies = []string{StrategyStrict, StrategyOptimistic, StrategyDiscovery, "no-such-strategy"}
var zzFallbacks = []string{"compatible_only", "none", "all", ""}

// VerifRoutingTable: the whole decision table of the three real strategies (created through the
// real Factory): strategy x fallback x refresh flag/outcome x every subset of N endpoints healthy x
// every subset listing the model, and that for CALLS consecutive requests on the same strategy
// instance (state must not leak between requests).
func VerifRoutingTable() {
	N, calls := gosym.Param("N"), gosym.Param("CALLS")
	f := NewFactory(zzLog{})
	stratName := zzStrategies[gosym.Param("STRATEGY")]
	nf := len(zzFallbacks)
	if stratName == StrategyDiscovery {
		nf = 3 // the shipped default is compatible_only; an explicitly empty value is outside the claim for this strategy
	}
	fallback := zzFallbacks[gosym.Choice("fallback", nf)]
	disc := &zzDiscovery{}
	opts := config.ModelRoutingStrategyOptions{FallbackBehavior: fallback, DiscoveryRefreshOnMiss: true}
	if stratName == StrategyDiscovery {
		opts.DiscoveryRefreshOnMiss = gosym.Choice("refresh_on_miss", 2) == 1
	}
	strat, err := f.Create(config.ModelRoutingStrategy{Type: stratName, Options: opts}, disc)
	gosym.Assert(err == nil && strat != nil, "the factory yields a strategy")
	all := make([]*domain.Endpoint, N)
	for i := range all {
		all[i] = &domain.Endpoint{Name: fmt.Sprintf("e%d", i), URLString: fmt.Sprintf("http://e%d:11434", i), Status: domain.StatusHealthy}
	}
	for c := 0; c < calls; c++ {
		model := gosym.String("model", 2)
		var healthy []*domain.Endpoint
		var listers []string
		healthyLister := map[string]bool{}
		anyHealthyLister := false
		for i, e := range all {
			h := gosym.Bool(fmt.Sprintf("healthy%d", i))
			l := gosym.Bool(fmt.Sprintf("lists%d", i))
			if h {
				healthy = append(healthy, e)
			}
			if l {
				listers = append(listers, e.URLString)
			}
			if h && l {
				healthyLister[e.URLString] = true
				anyHealthyLister = true
			}
		}
		disc.after = healthy
		if stratName == StrategyDiscovery {
			disc.refreshFails = gosym.Choice("refresh_fails", 2) == 1
		}
		got, dec, _ := strat.GetRoutableEndpoints(context.Background(), model, healthy, listers)
		gosym.Assert(dec != nil, "every answer carries a routing decision")
		if dec == nil {
			return
		}
		effFallback := fallback
		if effFallback == "" {
			effFallback = "compatible_only" // documented default
		}
		strict := stratName == StrategyStrict || stratName == "no-such-strategy"
		switch {
		case anyHealthyLister:
			gosym.Assert(len(got) == len(healthyLister), "routes to exactly the healthy endpoints that list the model")
			for _, e := range got {
				gosym.Assert(healthyLister[e.URLString], "never forwards a model to an endpoint that does not list it")
			}
			gosym.Assert(dec.Action == "routed" && dec.StatusCode == 200, "decision says routed/200 when a healthy lister exists")
		case strict || effFallback != "all":
			gosym.Assert(len(got) == 0, "no healthy lister and no 'all' fallback: nothing is forwarded")
			gosym.Assert(dec.Action == "rejected", "decision says rejected when nothing is forwarded")
			discoveryRow := stratName == StrategyDiscovery
			if len(listers) == 0 {
				gosym.AssertKF(dec.StatusCode == 404, "nobody lists the model: rejected as not found (404)", "KF-C09-2", discoveryRow)
			} else {
				gosym.Assert(dec.StatusCode == 503, "only unhealthy endpoints list the model: rejected as unavailable (503)")
			}
		default: // fallback "all"
			noRefresh := stratName == StrategyDiscovery && !opts.DiscoveryRefreshOnMiss
			gosym.AssertKF(len(got) == len(healthy), "fallback 'all' goes to the healthy set", "KF-C09-2", noRefresh)
			if len(got) == len(healthy) {
				for i := range got {
					gosym.Assert(got[i] == healthy[i], "fallback 'all' goes to the healthy set")
				}
				if len(healthy) > 0 {
					gosym.Assert(dec.Action == "fallback" && dec.StatusCode == 200, "decision says fallback when the healthy set is used without a lister")
				}
			}
		}
		gosym.Assert(dec.Strategy == strat.Name(), "decision names the strategy that acted")
		if dec.Action == "rejected" {
			gosym.Assert(len(got) == 0 && dec.StatusCode >= 400, "a rejection forwards nothing and carries an error status")
		}
	}
	gosym.Reach("end")
}
