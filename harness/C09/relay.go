package handlers

import (
	"bytes"
	"context"
	"errors"
	"io"
	"net/http"
	"net/url"

	"github.com/thushan/olla/internal/adapter/translator/anthropic"
	"github.com/thushan/olla/internal/config"
	"github.com/thushan/olla/internal/core/constants"
	"github.com/thushan/olla/internal/core/ports"

	"github.com/thushan/olla/internal/adapter/proxy/common"
	"github.com/thushan/olla/internal/app/middleware"
	"github.com/thushan/olla/internal/core/domain"
	"github.com/thushan/olla/internal/zzverif/gosym"
)

// zzRoutingRegistry answers GetRoutableEndpointsForModel the way the registry + strategy layer can
// (decided by the strategy-table job): a subset of the endpoints it was given with action "routed"
// or "fallback", or a rejection carrying the status the strategy computed (404 / 503).
type zzRoutingRegistry struct {
	domain.ModelRegistry
	asked    int
	rejected bool
	status   int
	picked   []*domain.Endpoint
}

func (z *zzRoutingRegistry) GetRoutableEndpointsForModel(_ context.Context, model string, healthy []*domain.Endpoint) ([]*domain.Endpoint, *domain.ModelRoutingDecision, error) {
	z.asked++
	// the two shapes the real strategies use for a rejection: strict/discovery return an error,
	// optimistic returns an empty list with a nil error; both carry the decision
	reject := func(reason string, status int) ([]*domain.Endpoint, *domain.ModelRoutingDecision, error) {
		z.rejected, z.status = true, status
		d := ports.NewRoutingDecision("zz", ports.RoutingActionRejected, reason)
		if gosym.Choice("rejection-shape", 2) == 0 {
			return nil, d, errors.New("model " + model + ": " + reason)
		}
		return []*domain.Endpoint{}, d, nil
	}
	switch gosym.Choice("routing", 3) {
	case 0: // rejected: model not found
		return reject(constants.RoutingReasonModelNotFound, http.StatusNotFound)
	case 1: // rejected: only unhealthy endpoints have it
		return reject(constants.RoutingReasonModelUnavailableNoFallback, http.StatusServiceUnavailable)
	default: // routed to a non-empty subset
		var out []*domain.Endpoint
		for _, e := range healthy {
			if gosym.Choice("serves", 2) == 1 {
				out = append(out, e)
			}
		}
		if len(out) == 0 {
			out = healthy[:1]
		}
		z.picked = out
		return out, ports.NewRoutingDecision("zz", ports.RoutingActionRouted, constants.RoutingReasonModelFound), nil
	}
}

type zzModelInspector struct{ model string }

func (zzModelInspector) Name() string { return "zz-model" }
func (i zzModelInspector) Inspect(_ context.Context, _ *http.Request, p *domain.RequestProfile) error {
	p.ModelName = i.model
	return nil
}

// VerifRoutingRelay: C09's last step and C05's "routing rejected it" clause - what the client of the
// proxy and provider routes sees when the routing layer rejected the model, and where the request
// goes when it routed it.  ROUTE 0 = /olla/proxy/..., 1 = /olla/<provider>/...
func VerifRoutingRelay() {
	s := zzLoadShipped()
	N := gosym.Param("N")
	var healthy []*domain.Endpoint
	for i := 0; i < N; i++ {
		u, _ := url.Parse("http://e:11434")
		healthy = append(healthy, &domain.Endpoint{Name: string(rune('a' + i)), URL: u, URLString: "http://e" + string(rune('0'+i)) + ":11434", Type: "ollama", Status: domain.StatusHealthy})
	}
	px := &zzProxy{}
	// the real engines answer an empty candidate list with ErrNoHealthyEndpoints and write nothing
	px.onEmpty = common.ErrNoHealthyEndpoints
	a := zzApp(s, healthy, px)
	a.inspectorChain.AddInspector(zzModelInspector{"m1"})
	reg := &zzRoutingRegistry{}
	a.modelRegistry = reg
	w := &zzW{h: http.Header{}}
	ctx := context.WithValue(context.Background(), middleware.RequestIDKey, "req-1")
	path := "/olla/proxy/api/chat"
	if gosym.Param("ROUTE") == 1 {
		path = "/olla/ollama/api/chat"
	}
	r := (&http.Request{Method: "POST", URL: &url.URL{Path: path}, Header: http.Header{}, Body: http.NoBody, RemoteAddr: "192.0.2.1:999"}).WithContext(ctx)
	switch gosym.Param("ROUTE") {
	case 1:
		a.providerProxyHandler(w, r)
	case 2:
		// the Anthropic route (translation mode): same routing layer, Anthropic error dialect
		a.statsCollector = &zzStats{}
		trans := anthropic.NewTranslator(zzLog{}, config.AnthropicTranslatorConfig{Enabled: true, MaxMessageSize: 1 << 20, PassthroughEnabled: false})
		body := gosym.JSONBytes(anthropic.AnthropicRequest{Model: "m1", MaxTokens: 16, Messages: []anthropic.AnthropicMessage{{Role: "user", Content: "hi"}}})
		r = (&http.Request{Method: "POST", URL: &url.URL{Path: "/olla/anthropic/v1/messages"}, Header: http.Header{"Content-Type": {"application/json"}},
			Body: io.NopCloser(bytes.NewReader(body)), ContentLength: int64(len(body)), RemoteAddr: "192.0.2.1:999"}).WithContext(ctx)
		a.translationHandler(trans)(w, r)
	default:
		a.proxyHandler(w, r)
	}
	gosym.Observe("status", w.status)
	gosym.Assert(reg.asked == 1, "the routing layer is consulted once for a request naming a model")
	if reg.rejected {
		gosym.Reach("rejected")
		contacted := px.called > 0 && len(px.endpoints) > 0
		gosym.Assert(!contacted, "C09: a rejected model is forwarded nowhere")
		gosym.AssertKF(w.status == reg.status, "C09/C05: the client gets the status the routing layer computed (404 not found / 503 unavailable)", "KF-C09-1", true)
		gosym.Assert(w.status >= 400 && len(w.body) > 0, "C05: a rejected request is a non-2xx answer with an error body")
	} else {
		gosym.Reach("routed")
		gosym.Assert(px.called == 1, "a routed request reaches the engine once")
		same := len(px.endpoints) == len(reg.picked)
		for i := range px.endpoints {
			if i < len(reg.picked) && px.endpoints[i] != reg.picked[i] {
				same = false
			}
		}
		gosym.Assert(same, "C09: the engine is given exactly the endpoints the routing layer chose")
	}
}
