package registry

import (
	"context"
	"fmt"

	"github.com/thushan/olla/internal/config"
	"github.com/thushan/olla/internal/core/domain"
	"github.com/thushan/olla/internal/zzverif/gosym"
)

var zzModels = []string{"llama3:8b", "phi3:mini"}

// VerifUnifiedHistory: the real UnifiedMemoryModelRegistry (real unifier, real strict routing
// strategy) under every history of L discovery results / endpoint removals on E endpoints, the
// asynchronous unification running either before or after the next operation; afterwards
//  - C09: a request naming a model is forwarded only to healthy endpoints whose latest listing
//    contains it;
//  - C10: the unified catalogue attributes a model to an endpoint iff its latest listing contains it.
func VerifUnifiedHistory() {
	L, E := gosym.Param("L"), gosym.Param("E")
	ctx := context.Background()
	r := NewUnifiedMemoryModelRegistry(zzLog{}, nil, &config.ModelRoutingStrategy{Type: "strict"}, nil)
	eps := make([]*domain.Endpoint, E)
	for i := range eps {
		eps[i] = &domain.Endpoint{Name: fmt.Sprintf("e%d", i), URLString: fmt.Sprintf("http://e%d:11434", i), Type: "ollama", Status: domain.StatusHealthy}
	}
	ref := map[string]map[string]bool{} // endpoint URL -> set of model names of the latest listing
	dropped := false                     // some endpoint's newer listing (or removal) dropped a model it listed before
	nl := 1 << len(zzModels)
	if gosym.Param("INIT") == 1 {
		// reachable start state: every endpoint lists every model and unification has finished
		for _, e := range eps {
			var list []*domain.ModelInfo
			now := map[string]bool{}
			for _, m := range zzModels {
				list = append(list, &domain.ModelInfo{Name: m})
				now[m] = true
			}
			r.RegisterModelsWithEndpoint(ctx, e, list)
			ref[e.URLString] = now
			gosym.RunPending()
		}
	}
	for step := 0; step < L; step++ {
		var e *domain.Endpoint
		var what int // 0..nl-1: register that listing; nl: remove
		if step == 0 && gosym.Param("S0") >= 0 {
			// first step fixed by the job (all values of S0 are run): splits the history space
			e, what = eps[gosym.Param("S0")%E], gosym.Param("S0")/E
		} else {
			e, what = eps[gosym.Choice("endpoint", E)], gosym.Choice("what", nl+1)
		}
		if what == nl {
			if len(ref[e.URLString]) > 0 {
				dropped = true
			}
			gosym.Assert(r.RemoveEndpoint(ctx, e.URLString) == nil, "remove succeeds")
			delete(ref, e.URLString)
		} else {
			subset := what
			var list []*domain.ModelInfo
			now := map[string]bool{}
			for k, m := range zzModels {
				if subset&(1<<k) != 0 {
					mi := &domain.ModelInfo{Name: m}
					if gosym.Param("DIGESTS") == 1 {
						// what a backend may put in a listing: no digest, short digests, the same name again
						// with another digest (C20: a listing must never crash the catalogue)
						// digests are content hashes: different models never share one (the unifier merges
						// entries with equal digests by design), so each carries the model's index
						if d := []string{"", "ab1", "cd3", "sha256:0123456789abcde"}[gosym.Choice("digest", 4)]; d != "" {
							dd := d + string(rune('0'+k))
							mi.Details = &domain.ModelDetails{Digest: &dd}
						}
						if gosym.Choice("listed_twice", 2) == 1 {
							d2 := "ef5" + string(rune('0'+k))
							list = append(list, &domain.ModelInfo{Name: m, Details: &domain.ModelDetails{Digest: &d2}})
						}
					}
					list = append(list, mi)
					now[m] = true
				}
			}
			for m := range ref[e.URLString] {
				if !now[m] {
					dropped = true
				}
			}
			gosym.Assert(r.RegisterModelsWithEndpoint(ctx, e, list) == nil, "a valid listing is accepted")
			ref[e.URLString] = now
		}
		if gosym.Choice("unification_completes_now", 2) == 1 {
			gosym.RunPending()
		}
	}
	gosym.RunPending() // quiescence: every background unification has finished
	// C09: routing (one model per path; the healthy subset is symbolic)
	for _, m := range zzModels[gosym.Choice("requested_model", len(zzModels)):][:1] {
		var healthy []*domain.Endpoint
		for i, e := range eps {
			if gosym.Bool(fmt.Sprintf("healthy%d", i)) {
				healthy = append(healthy, e)
			}
		}
		// the known staleness only reaches routing through the unified fall-back, which is consulted
		// when no endpoint lists the model natively any more
		listers := 0
		for _, set := range ref {
			if set[m] {
				listers++
			}
		}
		staleFallback := dropped && listers == 0
		// the client may name the model by its native name, by the unified id or by an alias
		asked := m
		if by := gosym.Choice("requested_by", 3); by > 0 && gosym.Param("ALIAS") == 1 {
			ums, _ := r.GetUnifiedModels(ctx)
			for _, u := range ums {
				mine := false
				for _, s := range u.SourceEndpoints {
					if s.NativeName == m {
						mine = true
					}
				}
				if !mine {
					continue
				}
				if by == 1 {
					asked = u.ID
				} else {
					for _, al := range u.Aliases {
						if al.Name != m && al.Name != u.ID {
							asked = al.Name
						}
					}
				}
			}
			gosym.Observe("asked", asked)
		}
		got, dec, _ := r.GetRoutableEndpointsForModel(ctx, asked, healthy)
		for _, g := range got {
			isHealthy := false
			for _, h := range healthy {
				if h == g {
					isHealthy = true
				}
			}
			gosym.Assert(isHealthy, "C09: forwarded only to healthy endpoints")
			gosym.AssertKF(ref[g.URLString][m], "C09: a model is forwarded only to endpoints whose latest listing contains it", "KF-C10-3", staleFallback)
		}
		want := 0
		for _, h := range healthy {
			if ref[h.URLString][m] {
				want++
			}
		}
		gosym.AssertKF(len(got) == want, "C09: every healthy endpoint whose latest listing contains the model is a candidate", "KF-C10-3", staleFallback)
		if dec != nil && want > 0 {
			gosym.Assert(dec.Action == "routed", "C09: decision says routed when a healthy lister exists")
		}
	}
	// C10: unified catalogue
	um, err := r.GetUnifiedModels(ctx)
	gosym.Assert(err == nil, "catalogue lookup succeeds")
	covered := map[string]bool{}
	for _, u := range um {
		for _, s := range u.SourceEndpoints {
			gosym.AssertKF(ref[s.EndpointURL][s.NativeName], "C10: the unified catalogue attributes a model to an endpoint only if its latest listing contains it", "KF-C10-3", dropped)
			covered[s.EndpointURL+"|"+s.NativeName] = true
		}
	}
	for url, set := range ref {
		for m := range set {
			gosym.Assert(covered[url+"|"+m], "C10: every model of an endpoint's latest listing appears in the unified catalogue once unification has finished")
		}
	}
	gosym.Reach("end")
}
