package stats

import (
	"github.com/thushan/olla/internal/core/domain"
	"github.com/thushan/olla/internal/zzverif/gosym"
	"sync"
)

// VerifGaugeSequential: every sequence of L connection events (+1 / -1) on E endpoints through the
// real Collector: each gauge equals max(0, running count) - never negative - and endpoints do not
// disturb each other.
func VerifGaugeSequential() {
	L, E := gosym.Param("L"), gosym.Param("E")
	c := NewCollector(zzLog{})
	eps := []*domain.Endpoint{{Name: "a", URLString: "http://a:1"}, {Name: "b", URLString: "http://b:1"}}[:E]
	want := map[string]int64{}
	for i := 0; i < L; i++ {
		e := eps[gosym.Choice("endpoint", E)]
		if gosym.Choice("delta", 2) == 0 {
			c.RecordConnection(e, 1)
			want[e.URLString]++
		} else {
			c.RecordConnection(e, -1)
			if want[e.URLString] > 0 {
				want[e.URLString]--
			}
		}
		got := c.GetConnectionStats()
		for _, x := range eps {
			gosym.Assert(got[x.URLString] >= 0, "a connection gauge is never negative")
			gosym.Assert(got[x.URLString] == want[x.URLString], "the gauge equals the attempts in flight")
		}
	}
	gosym.Reach("end")
}

// VerifGaugeConcurrent: G goroutines each open and later close one connection to the SAME, not yet
// tracked endpoint, under every interleaving of their synchronisation steps (atomics, xsync map
// operations): while all are open the gauge reads G, when all are closed it reads 0; no update lost.
func VerifGaugeConcurrent() {
	G := gosym.Param("G")
	c := NewCollector(zzLog{})
	e := &domain.Endpoint{Name: "a", URLString: "http://a:1"}
	opened := G
	var wg sync.WaitGroup
	wg.Add(G)
	for i := 0; i < G; i++ {
		go func() {
			defer wg.Done()
			c.RecordConnection(e, 1)
		}()
	}
	wg.Wait()
	gosym.Assert(opened == G, "all attempts started")
	gosym.Assert(c.GetConnectionStats()[e.URLString] == int64(G), "with G attempts in flight the gauge reads G (no increment is lost on first contact)")
	closed := G
	wg.Add(G)
	for i := 0; i < G; i++ {
		go func() {
			defer wg.Done()
			c.RecordConnection(e, -1)
		}()
	}
	wg.Wait()
	gosym.Assert(closed == G, "all attempts finished")
	gosym.Assert(c.GetConnectionStats()[e.URLString] == 0, "the gauge returns to zero when traffic stops")
	gosym.Reach("end")
}

// VerifCountersSequential: request outcomes recorded through RecordRequest: at every scope
// total = successes + failures, per endpoint and globally.
func VerifCountersSequential() {
	L := gosym.Param("L")
	c := NewCollector(zzLog{})
	eps := []*domain.Endpoint{{Name: "a", URLString: "http://a:1"}, {Name: "b", URLString: "http://b:1"}}
	ok, fail := map[string]int64{}, map[string]int64{}
	for i := 0; i < L; i++ {
		e := eps[gosym.Choice("endpoint", 2)]
		if gosym.Choice("outcome", 2) == 0 {
			c.RecordRequest(e, StatusSuccess, 5, 10)
			ok[e.URLString]++
		} else {
			c.RecordRequest(e, StatusFailure, 5, 0)
			fail[e.URLString]++
		}
	}
	ps := c.GetProxyStats()
	gosym.Assert(ps.TotalRequests == ps.SuccessfulRequests+ps.FailedRequests, "global: total = successes + failures")
	gosym.Assert(ps.TotalRequests == int64(L), "global: every recorded attempt is counted exactly once")
	es := c.GetEndpointStats()
	for _, e := range eps {
		s := es[e.URLString]
		gosym.Assert(s.TotalRequests == s.SuccessfulRequests+s.FailedRequests, "per endpoint: total = successes + failures")
		gosym.Assert(s.SuccessfulRequests == ok[e.URLString] && s.FailedRequests == fail[e.URLString], "per endpoint: successes and failures are attributed to the endpoint that served the attempt")
	}
	gosym.Reach("end")
}
