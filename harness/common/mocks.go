package core

// Harness-side environment mocks shared by several harnesses (DESIGN.md 3.2).  The package clause
// is rewritten to the package under test when the file is injected.

import (
	"context"
	"log/slog"
	"net/http"

	"github.com/thushan/olla/internal/core/domain"
	"github.com/thushan/olla/internal/logger"
)

type zzLog struct{}

func (zzLog) Debug(string, ...any)                                           {}
func (zzLog) Info(string, ...any)                                            {}
func (zzLog) Warn(string, ...any)                                            {}
func (zzLog) Error(string, ...any)                                           {}
func (zzLog) ResetLine()                                                     {}
func (zzLog) InfoWithStatus(string, string, ...any)                          {}
func (zzLog) InfoWithCount(string, int, ...any)                              {}
func (zzLog) InfoWithEndpoint(string, string, ...any)                        {}
func (zzLog) InfoWithHealthCheck(string, string, ...any)                     {}
func (zzLog) InfoWithNumbers(string, ...int64)                               {}
func (zzLog) WarnWithEndpoint(string, string, ...any)                        {}
func (zzLog) ErrorWithEndpoint(string, string, ...any)                       {}
func (zzLog) InfoHealthy(string, string, ...any)                             {}
func (zzLog) InfoHealthStatus(string, string, domain.EndpointStatus, ...any) {}
func (zzLog) GetUnderlying() *slog.Logger                                    { return nil }
func (l zzLog) WithRequestID(string) logger.StyledLogger                     { return l }
func (zzLog) InfoConfigChange(string, string)                                {}
func (l zzLog) WithAttrs(...slog.Attr) logger.StyledLogger                   { return l }
func (l zzLog) With(...any) logger.StyledLogger                              { return l }
func (zzLog) InfoWithContext(string, string, logger.LogContext)              {}
func (zzLog) WarnWithContext(string, string, logger.LogContext)              {}
func (zzLog) ErrorWithContext(string, string, logger.LogContext)             {}

// zzDisc records status write-backs.
type zzDisc struct {
	updates []*domain.Endpoint
	healthy []*domain.Endpoint // what the repository currently reports healthy (may exceed a request's candidate set)
}

func (d *zzDisc) GetEndpoints(context.Context) ([]*domain.Endpoint, error)        { return d.healthy, nil }
func (d *zzDisc) GetHealthyEndpoints(context.Context) ([]*domain.Endpoint, error) { return d.healthy, nil }
func (*zzDisc) RefreshEndpoints(context.Context) error                          { return nil }
func (d *zzDisc) UpdateEndpointStatus(_ context.Context, e *domain.Endpoint) error {
	d.updates = append(d.updates, e)
	return nil
}

// zzW records what reaches the client.
type zzW struct {
	h       http.Header
	status  int
	body    []byte
	started bool
	flushes int
}

func (w *zzW) Header() http.Header { return w.h }
func (w *zzW) Write(b []byte) (int, error) {
	if !w.started {
		w.status = 200
	}
	w.started = true
	w.body = append(w.body, b...)
	return len(b), nil
}
func (w *zzW) WriteHeader(c int) {
	if !w.started {
		w.status = c
	}
	w.started = true
}
func (w *zzW) Flush() { w.flushes++ }
