package handlers

import (
	"context"
	"net/url"

	"github.com/thushan/olla/internal/core/domain"
	"github.com/thushan/olla/internal/zzverif/gosym"
)

type zzRepo struct{ all []*domain.Endpoint }

func (r *zzRepo) GetAll(context.Context) ([]*domain.Endpoint, error) { return r.all, nil }
func (r *zzRepo) GetRoutable(context.Context) ([]*domain.Endpoint, error) {
	var out []*domain.Endpoint
	for _, e := range r.all {
		if e.Status.IsRoutable() {
			out = append(out, e)
		}
	}
	return out, nil
}
func (r *zzRepo) GetHealthy(context.Context) ([]*domain.Endpoint, error) {
	var out []*domain.Endpoint
	for _, e := range r.all {
		if e.Status == domain.StatusHealthy {
			out = append(out, e)
		}
	}
	return out, nil
}
func (r *zzRepo) UpdateEndpoint(context.Context, *domain.Endpoint) error { return nil }
func (r *zzRepo) Exists(context.Context, *url.URL) bool                  { return true }

// VerifProviderModelListing: the last clause of C11 - a model listing under a provider prefix
// contains only models available on (healthy) endpoints of that provider.  E endpoints with types
// drawn from the shipped profile names + auto + unknown and arbitrary health, M unified models each
// available on an arbitrary non-empty subset of them (aliases attributed to the platforms that
// reported the model, as the unifier does), filtered exactly as getProviderModels does
// (filterModelsByHealth, then filterModelsByProvider).
func VerifProviderModelListing() {
	s := zzLoadShipped()
	E, M := gosym.Param("E"), gosym.Param("M")
	pi := gosym.Param("PREFIX")
	prefix := s.prefixes[pi%len(s.prefixes)]
	provider := s.owner[prefix]
	types := append(append([]string{}, s.names...), "auto", "mystery-engine")
	repo := &zzRepo{}
	for i := 0; i < E; i++ {
		t := types[gosym.Choice("type", len(types))]
		// healthy / busy / warming / offline: provider-scoped requests only go to endpoints the
		// repository reports healthy, so a busy or warming endpoint serves nothing under the prefix
		st := []domain.EndpointStatus{domain.StatusHealthy, domain.StatusOffline, domain.StatusBusy, domain.StatusWarming}[gosym.Choice("status", 4)]
		u, _ := url.Parse("http://e:11434")
		repo.all = append(repo.all, &domain.Endpoint{Name: string(rune('a' + i)), URL: u, URLString: "http://e" + string(rune('0'+i)) + ":11434", Type: t, Status: st})
	}
	var models []*domain.UnifiedModel
	for m := 0; m < M; m++ {
		um := &domain.UnifiedModel{ID: "model-" + string(rune('0'+m))}
		for _, e := range repo.all {
			if gosym.Choice("lists", 2) == 1 {
				um.SourceEndpoints = append(um.SourceEndpoints, domain.SourceEndpoint{EndpointURL: e.URLString, EndpointName: e.Name, NativeName: um.ID})
				um.Aliases = append(um.Aliases, domain.AliasEntry{Name: um.ID, Source: e.Type})
			}
		}
		if len(um.SourceEndpoints) == 0 {
			continue // a unified model always has at least one source
		}
		models = append(models, um)
	}
	a := zzApp(s, nil, &zzProxy{})
	a.repository = repo
	ctx := context.Background()
	healthyModels, err := a.filterModelsByHealth(ctx, models)
	gosym.Assert(err == nil, "health filter works")
	listed, err := a.filterModelsByProvider(ctx, healthyModels, provider)
	gosym.Assert(err == nil, "provider filter works")

	allowed := func(t string) bool {
		n := NormaliseProviderType(t)
		if n == "auto" {
			return true
		}
		if provider == "openai" || provider == "openai-compatible" {
			return s.openai[n]
		}
		return n == provider
	}
	byURL := map[string]*domain.Endpoint{}
	for _, e := range repo.all {
		byURL[e.URLString] = e
	}
	for _, um := range listed {
		onHealthyProviderEndpoint, onProviderEndpoint, onHealthyEndpoint := false, false, false
		for _, src := range um.SourceEndpoints {
			e := byURL[src.EndpointURL]
			if allowed(e.Type) {
				onProviderEndpoint = true
				if e.Status == domain.StatusHealthy {
					onHealthyProviderEndpoint = true
				}
			}
			if e.Status == domain.StatusHealthy {
				onHealthyEndpoint = true
			}
		}
		gosym.Assert(onProviderEndpoint, "C11: a listed model is reported by some endpoint of the addressed provider")
		gosym.Assert(onHealthyEndpoint, "a listed model is available on some healthy endpoint")
		gosym.AssertKF(onHealthyProviderEndpoint, "C11: a model listed under a provider prefix is available on a healthy endpoint of that provider", "KF-C11-2", gosym.And(onProviderEndpoint, onHealthyEndpoint))
	}
	// completeness: what is available on a healthy endpoint of the provider is listed
	for _, um := range models {
		avail := false
		for _, src := range um.SourceEndpoints {
			e := byURL[src.EndpointURL]
			if allowed(e.Type) && e.Status == domain.StatusHealthy {
				avail = true
			}
		}
		if avail {
			found := false
			for _, l := range listed {
				if l == um {
					found = true
				}
			}
			gosym.Assert(found, "C11: a model available on a healthy endpoint of the provider is listed")
		}
	}
	gosym.Reach("end")
}
