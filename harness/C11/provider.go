package handlers

import (
	"context"
	"io"
	"net/http"
	"net/url"
	"sort"

	"github.com/thushan/olla/internal/adapter/inspector"
	"github.com/thushan/olla/internal/adapter/registry/profile"
	"github.com/thushan/olla/internal/app/middleware"
	"github.com/thushan/olla/internal/config"
	"github.com/thushan/olla/internal/core/domain"
	"github.com/thushan/olla/internal/core/ports"
	"github.com/thushan/olla/internal/logger"
	"github.com/thushan/olla/internal/zzverif/gosym"
)

// zzProxy records what the handler hands to the proxy engine.
type zzProxy struct {
	called    int
	endpoints []*domain.Endpoint
	path      string
	body      []byte
	bodySeen  []byte
	header    http.Header
	fail      error
	onEmpty   error // what the engine answers for an empty candidate list (nothing written)
	writes    func(w http.ResponseWriter)
}

func (p *zzProxy) ProxyRequest(ctx context.Context, w http.ResponseWriter, r *http.Request, stats *ports.RequestStats, rlog logger.StyledLogger) error {
	return p.ProxyRequestToEndpoints(ctx, w, r, nil, stats, rlog)
}
func (p *zzProxy) ProxyRequestToEndpoints(ctx context.Context, w http.ResponseWriter, r *http.Request, endpoints []*domain.Endpoint, stats *ports.RequestStats, rlog logger.StyledLogger) error {
	p.called++
	p.endpoints = endpoints
	p.path = r.URL.Path
	p.header = r.Header
	if r.Body != nil {
		p.bodySeen, _ = io.ReadAll(r.Body)
	}
	if len(endpoints) == 0 && p.onEmpty != nil {
		return p.onEmpty
	}
	if p.writes != nil {
		p.writes(w)
	}
	return p.fail
}
func (p *zzProxy) GetStats(context.Context) (ports.ProxyStats, error) { return ports.ProxyStats{}, nil }
func (p *zzProxy) UpdateConfig(ports.ProxyConfiguration)             {}

type zzHealthy struct{ eps []*domain.Endpoint }

func (d *zzHealthy) GetEndpoints(context.Context) ([]*domain.Endpoint, error)        { return d.eps, nil }
func (d *zzHealthy) GetHealthyEndpoints(context.Context) ([]*domain.Endpoint, error) { return d.eps, nil }
func (d *zzHealthy) RefreshEndpoints(context.Context) error                          { return nil }
func (d *zzHealthy) UpdateEndpointStatus(context.Context, *domain.Endpoint) error    { return nil }

// zzShipped: facts of the shipped profiles, read through olla's own factory (real YAML loader
// natively; the table generated from the same YAML under the interpreter).
type zzShipped struct {
	factory  *profile.Factory
	names    []string          // profile names
	prefixes []string          // every routing prefix
	owner    map[string]string // prefix -> profile name
	openai   map[string]bool   // profile name -> openai_compatible
}

func zzLoadShipped() *zzShipped {
	f, err := profile.NewFactory(gosym.RepoRoot() + "/config/profiles")
	if err != nil {
		panic(err)
	}
	s := &zzShipped{factory: f, owner: map[string]string{}, openai: map[string]bool{}}
	s.names = f.GetAvailableProfiles()
	for _, n := range s.names {
		p, _ := f.GetProfile(n)
		cfg := p.GetConfig()
		s.openai[n] = cfg.API.OpenAICompatible
		for _, px := range cfg.Routing.Prefixes {
			s.owner[px] = n
			s.prefixes = append(s.prefixes, px)
		}
	}
	sort.Strings(s.prefixes)
	return s
}

func zzApp(s *zzShipped, healthy []*domain.Endpoint, px *zzProxy) *Application {
	ifac := inspector.NewFactory(s.factory, zzLog{})
	chain := ifac.CreateChain()
	chain.AddInspector(ifac.CreatePathInspector())
	return &Application{Config: &config.Config{}, logger: zzLog{}, proxyService: px, discoveryService: &zzHealthy{healthy},
		inspectorChain: chain, profileFactory: s.factory, profileLookup: s.factory}
}

// VerifProviderRoutes: for routing prefix PREFIX (index into every prefix declared by the shipped
// profiles) x every list of N healthy endpoints with types drawn from {every shipped profile name,
// the lm-studio spellings, auto, an unknown type} x request paths {chat, native, unknown}: the
// endpoints handed to the proxy engine are all of that provider (openai prefixes: any profile that
// declares OpenAI compatibility; auto counts as any); if there is none the client gets an error and
// no backend is contacted.
func VerifProviderRoutes() {
	s := zzLoadShipped()
	N := gosym.Param("N")
	pi := gosym.Param("PREFIX")
	prefix := s.prefixes[pi%len(s.prefixes)] // the job list over-approximates the number of prefixes
	provider := s.owner[prefix]
	types := append(append([]string{}, s.names...), "lmstudio", "lm_studio", "auto", "mystery-engine")
	var healthy []*domain.Endpoint
	for i := 0; i < N; i++ {
		t := types[gosym.Choice("type", len(types))]
		u, _ := url.Parse("http://e:11434")
		healthy = append(healthy, &domain.Endpoint{Name: string(rune('a' + i)), URL: u, URLString: "http://e" + string(rune('0'+i)) + ":11434", Type: t, Status: domain.StatusHealthy})
	}
	path := []string{"/v1/chat/completions", "/api/chat", "/zz/unknown"}[gosym.Choice("path", 3)]
	px := &zzProxy{}
	a := zzApp(s, healthy, px)
	w := &zzW{h: http.Header{}}
	ctx := context.WithValue(context.Background(), middleware.RequestIDKey, "req-1")
	r := (&http.Request{Method: "POST", URL: &url.URL{Path: "/olla/" + prefix + path}, Header: http.Header{}, Body: http.NoBody, RemoteAddr: "192.0.2.1:999"}).WithContext(ctx)
	a.providerProxyHandler(w, r)
	gosym.Observe("status", w.status)
	gosym.Observe("body", string(w.body))

	// independent oracle
	allowed := func(t string) bool {
		n := NormaliseProviderType(t)
		if n == "auto" {
			return true
		}
		if provider == "openai" || provider == "openai-compatible" {
			return s.openai[n]
		}
		return n == provider
	}
	anyAllowed := false
	for _, e := range healthy {
		if allowed(e.Type) {
			anyAllowed = true
		}
	}
	if px.called > 0 {
		for _, e := range px.endpoints {
			gosym.AssertKF(allowed(e.Type), "every endpoint offered to the proxy engine is of the addressed provider", "KF-C11-1", !anyAllowed)
		}
		gosym.Assert(len(px.endpoints) > 0, "the proxy engine is not called with an empty candidate list")
	}
	if !anyAllowed {
		gosym.AssertKF(px.called == 0, "no backend is contacted when no healthy endpoint of the provider exists", "KF-C11-1", len(healthy) > 0)
		gosym.AssertKF(w.status >= 400, "the client gets an error when no healthy endpoint of the provider exists", "KF-C11-1", len(healthy) > 0)
	} else {
		gosym.Assert(px.called == 1, "a request to a provider with a healthy endpoint of that provider is served")
		if px.called > 0 {
			gosym.Assert(px.path == path, "the provider prefix is stripped from the upstream path")
		}
	}
	gosym.Reach("end")
}
