// Command zzverifprofilegen (overlay-only, never written to /repo) loads the shipped provider
// profiles with olla's own loader (config/profiles/*.yaml over the built-ins) and prints a Go
// source file for package profile that rebuilds exactly those ProfileConfig values without touching
// the file system.  The symbolic run overrides (*ProfileLoader).LoadProfiles with the generated
// function, so the real Factory code runs over the real shipped facts (DESIGN.md 3.4).
package main

import (
	"fmt"
	"os"
	"reflect"
	"sort"
	"strings"
	"time"

	"github.com/thushan/olla/internal/adapter/registry/profile"
)

func main() {
	dir := os.Args[1]
	f, err := profile.NewFactory(dir)
	if err != nil {
		fmt.Fprintln(os.Stderr, "profilegen:", err)
		os.Exit(1)
	}
	names := f.GetAvailableProfiles()
	names = append(names, "openai-compatible")
	sort.Strings(names)
	var b strings.Builder
	b.WriteString("package profile\n\n// Code generated from the shipped profiles by /verif/harness/gen/profilegen.go. DO NOT EDIT.\n\n")
	b.WriteString("import (\n\t\"time\"\n\n\t\"github.com/thushan/olla/internal/core/domain\"\n)\n\nvar _ = time.Second\n\n")
	b.WriteString("// zzVerifLoadProfiles replaces (*ProfileLoader).LoadProfiles under the interpreter.\n")
	b.WriteString("func zzVerifLoadProfiles(l *ProfileLoader) error {\n\tall := make(map[string]domain.InferenceProfile)\n")
	seen := map[string]bool{}
	for _, n := range names {
		if seen[n] {
			continue
		}
		seen[n] = true
		p, err := f.GetProfile(n)
		if err != nil || p.GetName() != n {
			continue
		}
		cfg := p.GetConfig()
		if cfg == nil {
			continue
		}
		fmt.Fprintf(&b, "\t{\n\t\tc := &domain.ProfileConfig{}\n")
		emit(&b, "c", reflect.ValueOf(cfg).Elem())
		fmt.Fprintf(&b, "\t\tall[c.Name] = NewConfigurableProfile(c)\n\t}\n")
	}
	b.WriteString("\tl.profiles = all\n\treturn nil\n}\n")
	fmt.Print(b.String())
}

var durType = reflect.TypeOf(time.Duration(0))

func emit(b *strings.Builder, path string, v reflect.Value) {
	t := v.Type()
	for i := 0; i < t.NumField(); i++ {
		f, fv := t.Field(i), v.Field(i)
		if !f.IsExported() {
			continue
		}
		p := path + "." + f.Name
		if fv.Kind() == reflect.Struct && f.Type.Name() == "" { // anonymous nested struct
			emit(b, p, fv)
			continue
		}
		if lit, ok := literal(fv); ok {
			if !fv.IsZero() {
				fmt.Fprintf(b, "\t\t%s = %s\n", p, lit)
			}
		} else if !fv.IsZero() {
			fmt.Fprintf(b, "\t\t// %s: not reproduced (%s)\n", p, f.Type)
		}
	}
}

func typeName(t reflect.Type) string {
	switch t.Kind() {
	case reflect.Ptr:
		return "*" + typeName(t.Elem())
	case reflect.Slice:
		return "[]" + typeName(t.Elem())
	case reflect.Map:
		return "map[" + typeName(t.Key()) + "]" + typeName(t.Elem())
	case reflect.Interface:
		return "interface{}"
	}
	if t == durType {
		return "time.Duration"
	}
	if t.PkgPath() != "" {
		parts := strings.Split(t.PkgPath(), "/")
		return parts[len(parts)-1] + "." + t.Name()
	}
	return t.Name()
}

func literal(v reflect.Value) (string, bool) {
	t := v.Type()
	switch v.Kind() {
	case reflect.String:
		if t.PkgPath() != "" {
			return fmt.Sprintf("%s(%q)", typeName(t), v.String()), true
		}
		return fmt.Sprintf("%q", v.String()), true
	case reflect.Bool:
		return fmt.Sprintf("%v", v.Bool()), true
	case reflect.Int, reflect.Int8, reflect.Int16, reflect.Int32, reflect.Int64:
		if t == durType {
			return fmt.Sprintf("time.Duration(%d)", v.Int()), true
		}
		if t.PkgPath() != "" {
			return fmt.Sprintf("%s(%d)", typeName(t), v.Int()), true
		}
		return fmt.Sprintf("%d", v.Int()), true
	case reflect.Uint, reflect.Uint8, reflect.Uint16, reflect.Uint32, reflect.Uint64:
		return fmt.Sprintf("%d", v.Uint()), true
	case reflect.Float32, reflect.Float64:
		return fmt.Sprintf("%v", v.Float()), true
	case reflect.Ptr:
		if v.IsNil() {
			return "nil", true
		}
		if v.Elem().Kind() == reflect.Struct {
			inner, ok := literal(v.Elem())
			return "&" + inner, ok
		}
		return "", false
	case reflect.Slice:
		if v.IsNil() {
			return "nil", true
		}
		var parts []string
		for i := 0; i < v.Len(); i++ {
			l, ok := literal(v.Index(i))
			if !ok {
				return "", false
			}
			parts = append(parts, l)
		}
		return typeName(t) + "{" + strings.Join(parts, ", ") + "}", true
	case reflect.Map:
		if v.IsNil() {
			return "nil", true
		}
		keys := v.MapKeys()
		sort.Slice(keys, func(i, j int) bool { return fmt.Sprint(keys[i]) < fmt.Sprint(keys[j]) })
		var parts []string
		for _, k := range keys {
			kl, ok1 := literal(k)
			vl, ok2 := literal(v.MapIndex(k))
			if !ok1 || !ok2 {
				return "", false
			}
			parts = append(parts, kl+": "+vl)
		}
		return typeName(t) + "{" + strings.Join(parts, ", ") + "}", true
	case reflect.Struct:
		if t.Name() == "" {
			return "", false
		}
		var parts []string
		for i := 0; i < t.NumField(); i++ {
			if !t.Field(i).IsExported() || v.Field(i).IsZero() {
				continue
			}
			l, ok := literal(v.Field(i))
			if !ok {
				return "", false
			}
			parts = append(parts, t.Field(i).Name+": "+l)
		}
		return typeName(t) + "{" + strings.Join(parts, ", ") + "}", true
	case reflect.Interface:
		if v.IsNil() {
			return "nil", true
		}
		return literal(v.Elem())
	}
	return "", false
}
