package discovery

import (
	"context"
	"fmt"
	"net/url"
	"time"

	"github.com/thushan/olla/internal/core/domain"
	"github.com/thushan/olla/internal/zzverif/gosym"
)

var zzWriteStatuses = []domain.EndpointStatus{domain.StatusHealthy, domain.StatusBusy, domain.StatusWarming, domain.StatusOffline, domain.StatusUnhealthy}

// VerifRepositoryHistory: E endpoints, every history of L status write-backs (as the health
// checker and the retry handler make them: on a copy, with a live, cancelled or expired context)
// interleaved with snapshots: a snapshot taken after a write contains exactly the endpoints whose
// latest written status is healthy (GetHealthy) / routable (GetRoutable), as copies that later
// writes do not change.
func VerifRepositoryHistory() {
	L, E := gosym.Param("L"), gosym.Param("E")
	r := NewStaticEndpointRepositoryWithFactory(nil)
	last := map[string]domain.EndpointStatus{}
	var keys []string
	for i := 0; i < E; i++ {
		u, _ := url.Parse(fmt.Sprintf("http://e%d:11434", i))
		e := &domain.Endpoint{Name: fmt.Sprintf("e%d", i), URL: u, URLString: u.String(), Status: domain.StatusUnknown, CheckInterval: 5 * time.Second}
		r.endpoints[u.String()] = e
		last[u.String()] = domain.StatusUnknown
		keys = append(keys, u.String())
	}
	live := context.Background()
	cancelled, cancel := context.WithCancel(context.Background())
	cancel()
	var oldSnap []*domain.Endpoint
	var oldSnapStatus []domain.EndpointStatus
	for step := 0; step < L; step++ {
		k := keys[gosym.Choice("endpoint", E)]
		st := zzWriteStatuses[gosym.Choice("status", len(zzWriteStatuses))]
		ctx := live
		if gosym.Choice("ctx", 2) == 1 { // the writer's context is already cancelled / past its deadline
			ctx = cancelled
		}
		all, _ := r.GetAll(live)
		var cp *domain.Endpoint
		for _, e := range all {
			if e.URLString == k {
				cp = e
			}
		}
		cp.Status = st // writers work on a copy and persist through UpdateEndpoint
		cp.ConsecutiveFailures++
		err := r.UpdateEndpoint(ctx, cp)
		gosym.Assert(err == nil, "a status write-back for a configured endpoint is accepted")
		last[k] = st
		// snapshots
		h, _ := r.GetHealthy(live)
		ro, _ := r.GetRoutable(live)
		for _, key := range keys {
			inH, inR := false, false
			for _, e := range h {
				if e.URLString == key {
					inH = true
					gosym.Assert(e != r.endpoints[key], "snapshots hold copies, not the stored record")
				}
			}
			for _, e := range ro {
				if e.URLString == key {
					inR = true
				}
			}
			gosym.Assert(inH == (last[key] == domain.StatusHealthy), "GetHealthy contains an endpoint iff its latest written status is healthy")
			gosym.Assert(inR == last[key].IsRoutable(), "GetRoutable contains an endpoint iff its latest written status is routable")
		}
		for i, e := range oldSnap {
			gosym.Assert(e.Status == oldSnapStatus[i], "an already taken snapshot is not changed by later writes")
		}
		oldSnap = ro
		oldSnapStatus = oldSnapStatus[:0]
		for _, e := range ro {
			oldSnapStatus = append(oldSnapStatus, e.Status)
		}
	}
	gosym.Reach("end")
}
