package health

import (
	"context"
	"errors"
	"net"
	"net/http"
	"net/url"
	"syscall"
	"time"

	"github.com/thushan/olla/internal/core/domain"
	"github.com/thushan/olla/internal/zzverif/gosym"
)

// zzRepo is a one-endpoint repository with the documented semantics: readers get copies, writers
// update the stored record's health fields.
type zzRepo struct {
	stored  *domain.Endpoint
	updates int
}

func (r *zzRepo) GetAll(context.Context) ([]*domain.Endpoint, error) {
	c := *r.stored
	return []*domain.Endpoint{&c}, nil
}
func (r *zzRepo) GetRoutable(ctx context.Context) ([]*domain.Endpoint, error) { return r.GetAll(ctx) }
func (r *zzRepo) GetHealthy(ctx context.Context) ([]*domain.Endpoint, error)  { return r.GetAll(ctx) }
func (r *zzRepo) Exists(context.Context, *url.URL) bool                        { return true }
func (r *zzRepo) UpdateEndpoint(_ context.Context, e *domain.Endpoint) error {
	r.updates++
	r.stored.Status = e.Status
	r.stored.LastChecked = e.LastChecked
	r.stored.ConsecutiveFailures = e.ConsecutiveFailures
	r.stored.BackoffMultiplier = e.BackoffMultiplier
	r.stored.NextCheckTime = e.NextCheckTime
	r.stored.LastLatency = e.LastLatency
	return nil
}

type zzTimeout struct{}

func (zzTimeout) Error() string   { return "i/o timeout" }
func (zzTimeout) Timeout() bool   { return true }
func (zzTimeout) Temporary() bool { return true }

const (
	zzOK = iota
	zzStatusCode
	zzRefuse
	zzTimeoutOutcome
	zzOtherErr
	zzPanic
	zzNumOutcomes
)

// zzClient is a scripted HTTPClient: the outcome of the current check is set by the harness.
type zzClient struct {
	outcome int
	code    int
	calls   int
}

func (c *zzClient) Do(*http.Request) (*http.Response, error) {
	c.calls++
	switch c.outcome {
	case zzOK, zzStatusCode:
		return &http.Response{StatusCode: c.code, Body: http.NoBody}, nil
	case zzRefuse:
		return nil, &net.OpError{Op: "dial", Net: "tcp", Err: syscall.ECONNREFUSED}
	case zzTimeoutOutcome:
		return nil, &net.OpError{Op: "dial", Net: "tcp", Err: zzTimeout{}}
	case zzPanic:
		panic("http client blew up")
	default:
		return nil, errors.New("unsupported protocol scheme")
	}
}

var zzPreStatuses = []domain.EndpointStatus{domain.StatusHealthy, domain.StatusBusy, domain.StatusWarming, domain.StatusOffline, domain.StatusUnhealthy, domain.StatusUnknown}
var zzMultipliers = []int{0, 1, 2, 4, 8, 12}

func zzNextMultiplier(m int) int {
	if m <= 1 {
		return 2
	}
	if 2*m > 12 {
		return 12
	}
	return 2 * m
}

// VerifHealthStep (inductive): from any stored state satisfying the representation invariant
// (status any, consecutive failures >= 0, multiplier in {0,1,2,4,8,12}), any check_interval in
// [1 s, 24 h] and a closed breaker, ONE check with any outcome stores exactly what the reference
// automaton (DESIGN.md A.2) says, and fires the recovery callback exactly on not-healthy->healthy.
func VerifHealthStep() {
	interval := time.Duration(gosym.Int64("check_interval"))
	gosym.Assume(gosym.And(interval >= time.Second, interval <= 24*time.Hour))
	cf := gosym.IntRange("consecutive_failures", 0, 1000000)
	m := zzMultipliers[gosym.Choice("multiplier", len(zzMultipliers))]
	pre := zzPreStatuses[gosym.Choice("pre_status", len(zzPreStatuses))]
	u, _ := url.Parse("http://e1:11434")
	ep := &domain.Endpoint{Name: "e1", URL: u, URLString: "http://e1:11434", HealthCheckURLString: "http://e1:11434/health",
		Status: pre, CheckInterval: interval, CheckTimeout: 2 * time.Second, ConsecutiveFailures: cf, BackoffMultiplier: m}
	repo := &zzRepo{stored: ep}
	cl := &zzClient{}
	ch := NewHTTPHealthChecker(repo, zzLog{}, cl)
	callbacks, liveCallbacks := 0, 0
	proceed := make(chan struct{})
	ch.SetRecoveryCallback(RecoveryCallbackFunc(func(cctx context.Context, _ *domain.Endpoint) error {
		<-proceed // the re-discovery runs after the scheduler has finished (and cancelled) its tick
		callbacks++
		if cctx.Err() == nil {
			liveCallbacks++
		}
		return nil
	}))

	cl.outcome = gosym.Choice("outcome", zzNumOutcomes)
	cl.code = 200
	if cl.outcome == zzOK {
		cl.code = gosym.IntRange("code", 200, 299)
	}
	if cl.outcome == zzStatusCode {
		cl.code = gosym.IntRange("code", 100, 599)
		gosym.Assume(gosym.Or(cl.code < 200, cl.code >= 300))
	}
	snap, _ := repo.GetAll(context.Background())
	t := gosym.Now()
	tick, cancelTick := context.WithCancel(context.Background())
	ch.checkEndpointSafely(tick, snap[0])
	cancelTick() // healthCheckLoop cancels the per-tick context as soon as the checks return
	close(proceed)
	gosym.RunPending()

	var want domain.EndpointStatus
	switch cl.outcome {
	case zzOK:
		want = domain.StatusHealthy
	case zzStatusCode, zzOtherErr:
		want = domain.StatusUnhealthy
	default: // refuse, timeout, panic in the client
		want = domain.StatusOffline
	}
	gosym.Assert(repo.updates == 1, "every check writes its result back exactly once")
	got := repo.stored
	gosym.Assert(got.Status == want, "stored status follows the state machine (healthy iff reached and 2xx; connection error/timeout = offline; error status = unhealthy)")
	gosym.Assert(got.LastChecked.UnixNano() == t, "LastChecked is the check instant")
	delay := got.NextCheckTime.Sub(got.LastChecked)
	if want == domain.StatusHealthy {
		gosym.Assert(got.ConsecutiveFailures == 0, "success resets the failure count")
		gosym.Assert(got.BackoffMultiplier == 1, "success resets the multiplier")
		gosym.Assert(delay == interval, "success returns to check_interval")
		wantCB := 0
		if pre != domain.StatusHealthy && pre != domain.StatusUnknown {
			wantCB = 1
		}
		gosym.Assert(callbacks == wantCB, "exactly one recovery callback per not-healthy->healthy transition")
		gosym.Assert(liveCallbacks == callbacks, "the re-discovery is handed a context that outlives the scheduler tick")
	} else {
		gosym.Assert(got.ConsecutiveFailures == cf+1, "a failed check counts one more consecutive failure")
		gosym.Assert(got.BackoffMultiplier == zzNextMultiplier(m), "multiplier follows 1,2,4,8,12,12,...")
		wantDelay := interval
		if m > 1 {
			wantDelay = interval * time.Duration(m)
			if wantDelay > 60*time.Second {
				wantDelay = 60 * time.Second
			}
		}
		gosym.Assert(delay == wantDelay, "delay to the next check is min(60 s, check_interval x multiplier)")
		gosym.Assert(callbacks == 0, "no recovery callback on a failed check")
	}
	if cl.outcome != zzPanic {
		gosym.Assert(cl.calls >= 1, "the endpoint was probed for real")
	}
	gosym.Observe("status", string(got.Status))
	gosym.Reach("end")
}

// VerifHealthHistory: histories of L checks from the configured initial state (unknown, multiplier
// 0) with time steps, through the real checker + real health client (retry loop) + real breaker:
// the stored record follows the composed reference automaton (A.1 + A.2): a breaker-blocked check
// is a synthetic offline result without a real probe; a proxy-detected failure may land between
// the checker's snapshot and its write-back.
func VerifHealthHistory() {
	L := gosym.Param("L")
	interval := 5 * time.Second
	u, _ := url.Parse("http://e1:11434")
	ep := &domain.Endpoint{Name: "e1", URL: u, URLString: "http://e1:11434", HealthCheckURLString: "http://e1:11434/health",
		Status: domain.StatusUnknown, CheckInterval: interval, CheckTimeout: 2 * time.Second}
	repo := &zzRepo{stored: ep}
	cl := &zzClient{}
	ch := NewHTTPHealthChecker(repo, zzLog{}, cl)
	callbacks := 0
	ch.SetRecoveryCallback(RecoveryCallbackFunc(func(context.Context, *domain.Endpoint) error { callbacks++; return nil }))

	// reference
	status := domain.StatusUnknown
	cf, m := 0, 0
	bf, bopen := 0, false // breaker: consecutive failures, open
	var blast int64        // breaker: last failure instant
	var probeAt int64      // breaker: instant of the half-open probe in flight (0 = none)
	wantCallbacks := 0
	staleSeen := false
	if gosym.Param("PREOPEN") == 1 {
		// start from the reachable state "three consecutive failed checks just happened"
		for i := 0; i < 3; i++ {
			ch.healthClient.circuitBreaker.RecordFailure(ep.HealthCheckURLString)
		}
		bf, bopen, blast = 3, true, gosym.Now()
		status, cf, m = domain.StatusOffline, 3, 4
		ep.Status, ep.ConsecutiveFailures, ep.BackoffMultiplier = status, cf, m
	}
	for step := 0; step < L; step++ {
		gosym.Advance("dt")
		cl.outcome = []int{zzOK, zzStatusCode, zzRefuse, zzTimeoutOutcome, zzPanic}[gosym.Choice("outcome", 5)]
		cl.code = 200
		if cl.outcome == zzStatusCode {
			cl.code = 503
		}
		snap, _ := repo.GetAll(context.Background())
		// a proxy-detected connection failure stored after the snapshot was taken
		stale := false
		if gosym.Param("PROXY") == 1 && gosym.Choice("proxy_failure_between_snapshot_and_writeback", 2) == 1 {
			repo.stored.Status = domain.StatusOffline
			stale = status != domain.StatusOffline
			status = domain.StatusOffline
		}
		now := gosym.Now()
		before := cl.calls
		if gosym.Param("LOOP") == 1 {
			// through the scheduler's tick: only endpoints that are due are checked, and a due
			// endpoint is checked (performHealthChecks takes its own snapshot)
			due := !gosym.TimeNow().Before(repo.stored.NextCheckTime)
			updatesBefore := repo.updates
			ch.performHealthChecks(context.Background())
			gosym.RunPending()
			if !due {
				gosym.Assert(cl.calls == before && repo.updates == updatesBefore, "an endpoint that is not due is neither probed nor updated")
				continue
			}
			gosym.Reach("due")
		} else {
			ch.checkEndpointSafely(context.Background(), snap[0])
			gosym.RunPending()
		}
		probed := cl.calls > before
		blocked := false
		if bopen {
			switch {
			case !(blast+int64(30*time.Second) < now):
				blocked = true // open, within the timeout
			case probeAt == 0:
				probeAt = now // first probe after the timeout
			case probeAt+int64(time.Second) > now:
				blocked = true // a probe is in flight: at most one per second
			default:
				probeAt = now // the earlier probe never reported back: next slot
			}
		}
		gosym.Assert(probed == !blocked, "a real probe happens unless the breaker holds the endpoint (open, within 30 s)")
		var want domain.EndpointStatus
		switch {
		case blocked:
			want = domain.StatusOffline
		case cl.outcome == zzOK:
			want = domain.StatusHealthy
		case cl.outcome == zzStatusCode:
			want = domain.StatusUnhealthy
		default:
			want = domain.StatusOffline
		}
		if !blocked && cl.outcome != zzPanic { // a panicking probe reports nothing to the breaker
			probeAt = 0
			if want == domain.StatusHealthy {
				bf, bopen = 0, false
			} else {
				bf++
				blast = now
				if bf >= 3 {
					bopen = true
				}
			}
		}
		gosym.Assert(repo.stored.Status == want, "stored status follows the composed state machine")
		if want == domain.StatusHealthy {
			if status != domain.StatusHealthy && status != domain.StatusUnknown {
				wantCallbacks++
				if stale {
					staleSeen = true
				}
			}
			cf, m = 0, 1
			gosym.Assert(repo.stored.NextCheckTime.Sub(repo.stored.LastChecked) == interval, "success returns to check_interval")
		} else {
			d := interval
			if m > 1 {
				d = interval * time.Duration(m)
				if d > 60*time.Second {
					d = 60 * time.Second
				}
			}
			cf, m = cf+1, zzNextMultiplier(m)
			gosym.Assert(repo.stored.NextCheckTime.Sub(repo.stored.LastChecked) == d, "delay to the next check is min(60 s, check_interval x multiplier)")
		}
		status = want
		gosym.Assert(repo.stored.ConsecutiveFailures == cf, "consecutive failures follow the reference")
		gosym.Assert(repo.stored.BackoffMultiplier == m, "multiplier follows the reference")
		gosym.AssertKF(callbacks == wantCallbacks, "exactly one model re-discovery per stored not-healthy->healthy transition", "KF-C07-1", staleSeen)
	}
	gosym.Reach("end")
}
