package anthropic

import (
	"context"
	"fmt"
	"net/http"
	"strings"

	"github.com/thushan/olla/internal/zzverif/gosym"
)

// zzCompletion is one backend completion in abstract form.
type zzCompletion struct {
	text   string
	tools  []zzToolRef
	argObj []map[string]interface{}
	finish string
	usage  bool
}

func zzGenCompletion() zzCompletion {
	var c zzCompletion
	if n := gosym.Choice("textlen", 3); n > 0 {
		c.text = gosym.String("text", n)
	}
	nt := gosym.Choice("tools", 3)
	for i := 0; i < nt; i++ {
		obj := map[string]interface{}{"k": fmt.Sprintf("v%d", i)}
		c.argObj = append(c.argObj, obj)
		c.tools = append(c.tools, zzToolRef{id: fmt.Sprintf("call_%d", i), name: fmt.Sprintf("fn_%d", i), args: string(gosym.JSONBytes(obj))})
	}
	c.finish = zzFinish[gosym.Choice("finish", len(zzFinish))]
	c.usage = gosym.Choice("usage", 2) == 1
	return c
}

func (c zzCompletion) buffered() map[string]interface{} {
	msg := map[string]interface{}{"role": "assistant"}
	if c.text != "" || gosym.Choice("content_key_present", 2) == 1 {
		msg["content"] = c.text
	}
	if len(c.tools) > 0 {
		var tcs []interface{}
		for _, tl := range c.tools {
			tcs = append(tcs, map[string]interface{}{"id": tl.id, "type": "function", "function": map[string]interface{}{"name": tl.name, "arguments": tl.args}})
		}
		msg["tool_calls"] = tcs
	}
	resp := map[string]interface{}{"id": "chatcmpl-1", "model": "m1",
		"choices": []interface{}{map[string]interface{}{"index": float64(0), "message": msg, "finish_reason": c.finish}}}
	if c.usage {
		resp["usage"] = map[string]interface{}{"prompt_tokens": float64(7), "completion_tokens": float64(11)}
	}
	return resp
}

// VerifBuffered: TransformResponse on every completion of the grammar: text first (if any), then one
// tool_use block per tool call in order with id, name and the parsed arguments object; stop reason
// and usage mapped; and the streamed translation of the same completion agrees with it.
func VerifBuffered() {
	t := zzTranslator()
	c := zzGenCompletion()
	out, err := t.TransformResponse(context.Background(), c.buffered(), &http.Request{Header: http.Header{}})
	gosym.Assert(err == nil, "a well-formed completion is translated")
	if err != nil {
		return
	}
	resp, ok := out.(AnthropicResponse)
	gosym.Assert(ok, "the result is an Anthropic message")
	gosym.Assert(resp.Type == "message" && resp.Role == "assistant", "message envelope")
	gosym.Assert(resp.StopReason == zzStop(c.finish), "stop_reason maps finish_reason")
	if c.usage {
		gosym.Assert(resp.Usage.InputTokens == 7 && resp.Usage.OutputTokens == 11, "token usage mapped")
	}
	i := 0
	if c.text != "" {
		gosym.Assert(len(resp.Content) > 0 && resp.Content[0].Type == "text" && resp.Content[0].Text == c.text, "the text comes first, unchanged")
		i = 1
	}
	if c.text == "" && len(c.tools) == 0 {
		gosym.Assert(len(resp.Content) == 1 && resp.Content[0].Type == "text" && resp.Content[0].Text == "", "an empty completion yields one empty text block")
	} else {
		gosym.Assert(len(resp.Content) == i+len(c.tools), "one block per text / tool call")
		for j, tl := range c.tools {
			if i+j < len(resp.Content) {
				b := resp.Content[i+j]
				gosym.Assert(b.Type == "tool_use" && b.ID == tl.id && b.Name == tl.name, "tool call id and name preserved, in order")
				gosym.Assert(len(b.Input) == 1 && b.Input["k"] == c.argObj[j]["k"], "tool arguments are the JSON-equal object")
			}
		}
	}

	// ---- the streamed translation of the same completion
	w := &zzSSE{h: http.Header{}}
	rc := http.NewResponseController(w)
	state := &StreamingState{messageID: "msg_verif", contentBlocks: make([]ContentBlock, 0, 4), toolCallBuffers: map[int]*strings.Builder{}, toolIndexToBlock: map[int]int{}}
	send := func(delta map[string]interface{}, fin string, usage bool) {
		choice := map[string]interface{}{"index": float64(0), "delta": delta}
		if fin != "" {
			choice["finish_reason"] = fin
		}
		chunk := map[string]interface{}{"id": "chatcmpl-1", "model": "m1", "choices": []interface{}{choice}}
		if usage {
			chunk["usage"] = map[string]interface{}{"prompt_tokens": float64(7), "completion_tokens": float64(11)}
		}
		gosym.Assert(t.processStreamLine(gosym.JSONLine("data: ", chunk), state, w, rc) == nil, "stream line processed")
	}
	for k := 0; k < len(c.text); k++ { // per-byte text deltas
		send(map[string]interface{}{"content": c.text[k : k+1]}, "", false)
	}
	for j, tl := range c.tools {
		send(map[string]interface{}{"tool_calls": []interface{}{map[string]interface{}{"index": float64(j), "id": tl.id, "type": "function",
			"function": map[string]interface{}{"name": tl.name, "arguments": ""}}}}, "", false)
		send(map[string]interface{}{"tool_calls": []interface{}{map[string]interface{}{"index": float64(j),
			"function": map[string]interface{}{"arguments": tl.args}}}}, "", false)
	}
	send(map[string]interface{}{}, c.finish, c.usage)
	if !state.messageStartSent {
		t.writeEvent(w, "message_start", t.createMessageStart(state))
		state.messageStartSent = true
	}
	gosym.Assert(t.finalizeStream(state, w, rc, nil) == nil, "the stream can be finalised")
	gosym.Assert(w.parse(), "well-formed SSE")
	sText := ""
	var sTools []zzToolRef
	sStop := ""
	sIn, sOut := -1, -1
	for _, e := range w.events {
		switch e.name {
		case "content_block_start":
			cb := zzMap(e.data["content_block"])
			if zzStr(cb["type"]) == "tool_use" {
				sTools = append(sTools, zzToolRef{id: zzStr(cb["id"]), name: zzStr(cb["name"])})
			}
		case "content_block_delta":
			d := zzMap(e.data["delta"])
			if zzStr(d["type"]) == "text_delta" {
				sText += zzStr(d["text"])
			} else if len(sTools) > 0 {
				sTools[len(sTools)-1].args += zzStr(d["partial_json"])
			}
		case "message_delta":
			sStop = zzStr(zzMap(e.data["delta"])["stop_reason"])
			u := zzMap(e.data["usage"])
			sIn, _ = zzInt(u["input_tokens"])
			sOut, _ = zzInt(u["output_tokens"])
		}
	}
	gosym.Assert(sText == c.text, "streamed and buffered translations carry the same text")
	gosym.Assert(len(sTools) == len(c.tools), "streamed and buffered translations carry the same tool calls")
	if len(sTools) == len(c.tools) {
		for j := range sTools {
			gosym.Assert(sTools[j].id == c.tools[j].id && sTools[j].name == c.tools[j].name && sTools[j].args == c.tools[j].args, "streamed and buffered tool calls agree (id, name, arguments)")
		}
	}
	gosym.Assert(sStop == resp.StopReason, "streamed and buffered stop reasons agree")
	if c.usage {
		gosym.Assert(sIn == resp.Usage.InputTokens && sOut == resp.Usage.OutputTokens, "streamed and buffered usage agree")
	}
	gosym.Reach("end")
}
