package anthropic

import (
	"fmt"
	"net/http"
	"strings"

	"github.com/thushan/olla/internal/adapter/inspector"
	"github.com/thushan/olla/internal/zzverif/gosym"
)

func zzTranslator() *Translator {
	return &Translator{logger: zzLog{}, inspector: inspector.NewSimple(false, "", "", zzLog{}), maxMessageSize: 10 << 20}
}

// zzSSE records what the client receives and parses it back into (event name, data) pairs.
type zzSSE struct {
	h      http.Header
	chunks []string
	events []zzEvent
}

type zzEvent struct {
	name string
	data map[string]interface{}
}

func (w *zzSSE) Header() http.Header { return w.h }
func (w *zzSSE) WriteHeader(int)     {}
func (w *zzSSE) Flush()              {}
func (w *zzSSE) Write(b []byte) (int, error) {
	w.chunks = append(w.chunks, string(b))
	return len(b), nil
}

// parse splits the recorded text into SSE events and decodes their data payloads.
func (w *zzSSE) parse() bool {
	all := strings.Join(w.chunks, "")
	for _, block := range strings.Split(all, "\n\n") {
		if block == "" {
			continue
		}
		lines := strings.Split(block, "\n")
		if len(lines) != 2 || !strings.HasPrefix(lines[0], "event: ") || !strings.HasPrefix(lines[1], "data: ") {
			return false
		}
		v, ok := gosym.DecodeJSON([]byte(strings.TrimPrefix(lines[1], "data: ")))
		if !ok {
			return false
		}
		m, ok := v.(map[string]interface{})
		if !ok {
			return false
		}
		w.events = append(w.events, zzEvent{strings.TrimPrefix(lines[0], "event: "), m})
	}
	return true
}

func zzInt(v interface{}) (int, bool) {
	switch x := v.(type) {
	case int:
		return x, true
	case float64:
		return int(x), true
	case int64:
		return int(x), true
	}
	return 0, false
}

func zzStr(v interface{}) string {
	s, _ := v.(string)
	return s
}

func zzMap(v interface{}) map[string]interface{} {
	m, _ := v.(map[string]interface{})
	return m
}

type zzToolRef struct {
	id, name, args string
}

var zzFinish = []string{"stop", "tool_calls", "length", "content_filter"}

func zzStop(fin string) string {
	switch fin {
	case "tool_calls":
		return "tool_use"
	case "length":
		return "max_tokens"
	}
	return "end_turn"
}

// VerifStream: every sequence of K parsed OpenAI stream chunks (text delta with symbolic text, tool
// call start, tool argument continuation, finish chunk, usage chunk, malformed/junk lines; a finish
// reason may ride on a delta chunk), tool-call fragments contiguous per call as real backends emit
// them.  The client-side event log must be accepted by the strict Anthropic SSE automaton
// (DESIGN.md A.3) and lose nothing.
func VerifStream() {
	K := gosym.Param("K")
	t := zzTranslator()
	w := &zzSSE{h: http.Header{}}
	rc := http.NewResponseController(w)
	state := &StreamingState{messageID: "msg_verif", contentBlocks: make([]ContentBlock, 0, 4), toolCallBuffers: map[int]*strings.Builder{}, toolIndexToBlock: map[int]int{}}

	// reference
	type refBlock struct {
		kind string // "text" | "tool_use"
		text string
		tool zzToolRef
	}
	var blocks []refBlock
	nextTool := 0
	lastFinish := ""
	inTok, outTok := 0, 0
	toolAfterTool := false
	hostile := false        // the sequence contains a fragment outside the "as real backends emit them" grammar
	usageOnlyChunk := false // usage arrived on a chunk whose choices list is empty (OpenAI's include_usage shape)

	for k := 0; k < K; k++ {
		nkinds := 6
		if gosym.Param("HOSTILE") == 1 {
			nkinds = 7 // plus fragments no well-behaved backend sends (C20 / the no-crash clause of C13)
		}
		kind := gosym.Choice("chunk", nkinds)
		delta := map[string]interface{}{}
		choice := map[string]interface{}{"index": float64(0), "delta": delta}
		chunk := map[string]interface{}{"id": "chatcmpl-1", "model": "m1", "choices": []interface{}{choice}}
		line := ""
		switch kind {
		case 0: // text delta
			txt := gosym.String(fmt.Sprintf("text%d", k), 1)
			delta["content"] = txt
			if len(blocks) == 0 || blocks[len(blocks)-1].kind != "text" {
				blocks = append(blocks, refBlock{kind: "text"})
			}
			blocks[len(blocks)-1].text += txt
		case 1: // first fragment of the next tool call: id + name (+ optional first argument bytes)
			id, name := fmt.Sprintf("call_%d", nextTool), fmt.Sprintf("fn_%d", nextTool)
			args := ""
			if gosym.Choice("first_args", 2) == 1 {
				args = gosym.String(fmt.Sprintf("args%d", k), 1)
			}
			delta["tool_calls"] = []interface{}{map[string]interface{}{"index": float64(nextTool), "id": id, "type": "function",
				"function": map[string]interface{}{"name": name, "arguments": args}}}
			if len(blocks) > 0 && blocks[len(blocks)-1].kind == "tool_use" {
				toolAfterTool = true
			}
			blocks = append(blocks, refBlock{kind: "tool_use", tool: zzToolRef{id: id, name: name, args: args}})
			nextTool++
		case 2: // argument continuation of the current tool call (only while a tool call is the last block)
			if len(blocks) == 0 || blocks[len(blocks)-1].kind != "tool_use" {
				gosym.Reach("skip-continuation")
				continue
			}
			args := gosym.String(fmt.Sprintf("args%d", k), 1)
			delta["tool_calls"] = []interface{}{map[string]interface{}{"index": float64(nextTool - 1),
				"function": map[string]interface{}{"arguments": args}}}
			blocks[len(blocks)-1].tool.args += args
		case 6: // arguments for a tool index that was never announced (whatever block is open)
			idxs := []float64{float64(nextTool), 7}
			delta["tool_calls"] = []interface{}{map[string]interface{}{"index": idxs[gosym.Choice("orphan_index", 2)],
				"function": map[string]interface{}{"arguments": "{"}}}
			hostile = true
		case 3: // finish chunk with empty delta
			fin := zzFinish[gosym.Choice("finish", len(zzFinish))]
			choice["finish_reason"] = fin
			lastFinish = fin
		case 4: // usage chunk
			inTok, outTok = 7, 11
			chunk["usage"] = map[string]interface{}{"prompt_tokens": float64(7), "completion_tokens": float64(11)} // numbers as the decoder yields them
			if gosym.Choice("usage_with_empty_choices", 2) == 1 {
				chunk["choices"] = []interface{}{}
				usageOnlyChunk = true
			}
		case 5: // junk
			switch gosym.Choice("junk", 7) {
			case 5: // a JSON object without choices (metadata-only chunk)
				line = gosym.JSONLine("data: ", map[string]interface{}{})
			case 6: // an in-band error object
				line = gosym.JSONLine("data: ", map[string]interface{}{"error": map[string]interface{}{"message": "overloaded"}})
			case 0:
				line = "data: {not json"
			case 1:
				line = ": keep-alive comment"
			case 2:
				line = "data: [DONE]"
			case 3:
				chunk["choices"] = "not-a-list"
			case 4:
				chunk["choices"] = []interface{}{"not-an-object"}
			}
		}
		if kind <= 2 && gosym.Choice("finish_on_delta_chunk", 2) == 1 {
			fin := zzFinish[gosym.Choice("finish", len(zzFinish))]
			choice["finish_reason"] = fin
			lastFinish = fin
		}
		if line == "" {
			line = gosym.JSONLine("data: ", chunk)
		}
		err := t.processStreamLine(line, state, w, rc)
		gosym.Assert(err == nil, "a stream line never aborts the stream")
	}
	// end of stream, exactly as TransformStreamingResponse does
	if !state.messageStartSent {
		gosym.Assert(t.writeEvent(w, "message_start", t.createMessageStart(state)) == nil, "message_start can be written")
		state.messageStartSent = true
	}
	gosym.Assert(t.finalizeStream(state, w, rc, nil) == nil, "the stream can be finalised")
	if hostile {
		// no-crash / termination clause only: the stream ended without a panic and was finalised
		gosym.Assert(w.parse(), "every write is one well-formed SSE event with a JSON object payload")
		gosym.Reach("hostile-sequence-survived")
		return
	}

	// ---- oracle: strict Anthropic SSE automaton + losslessness
	gosym.Assert(w.parse(), "every write is one well-formed SSE event with a JSON object payload")
	ev := w.events
	kf := "KF-C13-1"
	ok := func(c bool, label string) { gosym.AssertKF(c, label, kf, toolAfterTool) }
	ok(len(ev) >= 3, "at least message_start, message_delta, message_stop")
	if len(ev) < 3 {
		return
	}
	ok(ev[0].name == "message_start", "exactly one message_start, first")
	idx := 0      // next block index
	open := false // a block is open
	openKind := ""
	var got []refBlock
	i := 1
	for ; i < len(ev); i++ {
		e := ev[i]
		n, _ := zzInt(e.data["index"])
		switch e.name {
		case "content_block_start":
			ok(!open, "a block is started only when no block is open")
			ok(n == idx, "blocks are numbered 0,1,2,...")
			cb := zzMap(e.data["content_block"])
			openKind = zzStr(cb["type"])
			got = append(got, refBlock{kind: openKind, tool: zzToolRef{id: zzStr(cb["id"]), name: zzStr(cb["name"])}})
			open = true
		case "content_block_delta":
			ok(open, "a delta arrives only while a block is open")
			ok(n == idx, "a delta carries the index of the open block")
			d := zzMap(e.data["delta"])
			if len(got) > 0 {
				switch zzStr(d["type"]) {
				case "text_delta":
					ok(openKind == "text", "text_delta only inside a text block")
					got[len(got)-1].text += zzStr(d["text"])
				case "input_json_delta":
					ok(openKind == "tool_use", "input_json_delta only inside a tool_use block")
					got[len(got)-1].tool.args += zzStr(d["partial_json"])
				default:
					ok(false, "delta type is text_delta or input_json_delta")
				}
			}
		case "content_block_stop":
			ok(open, "a block is stopped only while open")
			ok(n == idx, "content_block_stop carries the index of the open block")
			open = false
			idx++
		case "message_start":
			ok(false, "exactly one message_start, first")
		default:
			goto tail
		}
	}
tail:
	ok(!open, "every block is closed before message_delta")
	ok(i == len(ev)-2 && ev[i].name == "message_delta" && ev[i+1].name == "message_stop", "the stream ends with one message_delta and a final message_stop")
	if i == len(ev)-2 && ev[i].name == "message_delta" {
		d := zzMap(ev[i].data["delta"])
		gosym.Assert(zzStr(d["stop_reason"]) == zzStop(lastFinish), "stop_reason maps the last finish_reason")
		u := zzMap(ev[i].data["usage"])
		a, _ := zzInt(u["input_tokens"])
		b, _ := zzInt(u["output_tokens"])
		gosym.AssertKF(a == inTok && b == outTok, "token usage is carried over", "KF-C13-2", usageOnlyChunk)
	}
	// losslessness
	ok(len(got) == len(blocks), "one content block per text run / tool call of the completion")
	if len(got) == len(blocks) {
		for j := range blocks {
			ok(got[j].kind == blocks[j].kind, "block kinds in the completion's order")
			if blocks[j].kind == "text" {
				ok(got[j].text == blocks[j].text, "concatenated text deltas reproduce the backend's text")
			} else {
				ok(got[j].tool.id == blocks[j].tool.id && got[j].tool.name == blocks[j].tool.name, "tool call id and name preserved")
				ok(got[j].tool.args == blocks[j].tool.args, "concatenated partial_json reproduces the tool call's arguments")
			}
		}
	}
	gosym.Reach("end")
}
