package registry

import (
	"context"
	"fmt"
	"sync"

	"github.com/thushan/olla/internal/core/domain"
	"github.com/thushan/olla/internal/zzverif/gosym"
)

// zzNoProbe: the concurrent job compares with the mentioned names only (the symbolic probe name is
// the sequential jobs' business)
var zzNoProbe = false

var zzEPs = []string{"http://e1:11434", "http://e2:11434", "http://e3:11434"}

// VerifRegistryHistory: every history of length L over RegisterModels(e, list) | RegisterModel |
// RemoveEndpoint on E endpoints, lists of 0..2 models with names drawn from {"a","B",""} (equal
// names, duplicates inside a listing, nameless entries); every lookup is made with a fully
// symbolic probe name as well: per-endpoint listing, model->endpoints lookup, availability and statistics equal
// a reference map of the last accepted listing; a rejected update leaves everything as it was.
func VerifRegistryHistory() {
	L, E := gosym.Param("L"), gosym.Param("E")
	ctx := context.Background()
	r := NewMemoryModelRegistry(zzLog{})
	ref := map[string][]string{}
	var mentioned []string
	tainted := false // a rejected listing was partially applied (known finding): later state inherits it
	alphabet := []string{"a", "", "B"}[:gosym.Param("NAMES")] // names (case differs) and the invalid empty name
	newName := func(tag string) string {
		n := alphabet[gosym.Choice("name", len(alphabet))]
		if n != "" {
			mentioned = append(mentioned, n)
		}
		return n
	}
	for step := 0; step < L; step++ {
		var e string
		var op int
		if step == 0 && gosym.Param("S0") >= 0 {
			// the first step's (endpoint, operation) is fixed by the job so that histories are split
			// over parallel processes; all values of S0 together cover every first step
			e, op = zzEPs[gosym.Param("S0")%E], gosym.Param("S0")/E
		} else {
			e, op = zzEPs[gosym.Choice("endpoint", E)], gosym.Choice("op", 3)
		}
		switch op {
		case 0: // replace listing
			k := gosym.Choice("len", 3)
			var list []*domain.ModelInfo
			var names []string
			valid := true
			badAfterGood := false
			for i := 0; i < k; i++ {
				n := newName(fmt.Sprintf("m%d_%d", step, i))
				if n == "" {
					valid = false
					if i > 0 {
						badAfterGood = true
					}
				}
				names = append(names, n)
				list = append(list, &domain.ModelInfo{Name: n})
			}
			hadModels := len(ref[e]) > 0
			err := r.RegisterModels(ctx, e, list)
			if valid {
				gosym.Assert(err == nil, "a valid listing is accepted")
				ref[e] = names
			} else {
				gosym.Assert(err != nil, "a listing with a nameless entry is rejected")
				// rejected: reference unchanged; known finding region = partial update happened
				if hadModels || badAfterGood {
					tainted = true
				}
				zzRegistryCompare(r, ref, mentioned, E, "KF-C10-1", tainted)
			}
		case 1: // single model upsert
			n := newName(fmt.Sprintf("s%d", step))
			err := r.RegisterModel(ctx, e, &domain.ModelInfo{Name: n})
			if n == "" {
				gosym.Assert(err != nil, "a nameless model is rejected")
			} else {
				gosym.Assert(err == nil, "a named model is accepted")
				found := false
				for _, x := range ref[e] {
					if x == n {
						found = true
					}
				}
				if !found {
					ref[e] = append(ref[e], n)
				}
			}
		case 2:
			gosym.Assert(r.RemoveEndpoint(ctx, e) == nil, "remove succeeds")
			delete(ref, e)
		}
	}
	zzRegistryCompare(r, ref, mentioned, E, "KF-C10-1", tainted)
	gosym.Reach("end")
}

func zzRegistryCompare(r *MemoryModelRegistry, ref map[string][]string, mentioned []string, E int, kf string, region bool) {
	ctx := context.Background()
	assert := func(c bool, label string) {
		if kf != "" {
			gosym.AssertKF(c, label, kf, region)
		} else {
			gosym.Assert(c, label)
		}
	}
	names := append([]string{}, mentioned...)
	if !zzNoProbe {
		names = append(names, gosym.String("probe", 1))
	}
	// per-endpoint listing
	for i := 0; i < E; i++ {
		e := zzEPs[i]
		got, err := r.GetModelsForEndpoint(ctx, e)
		assert(err == nil, "listing lookup succeeds")
		assert(len(got) == len(ref[e]), "per-endpoint listing has the length of the last accepted listing")
		if len(got) == len(ref[e]) {
			same := true
			for j := range got {
				same = gosym.And(same, got[j].Name == ref[e][j])
			}
			assert(same, "per-endpoint listing equals the last accepted listing")
		}
	}
	// model -> endpoints
	for _, q := range names {
		got, err := r.GetEndpointsForModel(ctx, q)
		assert(err == nil, "model lookup succeeds")
		anyE := false
		for i := 0; i < E; i++ {
			e := zzEPs[i]
			in := false
			for _, g := range got {
				if g == e {
					in = true
				}
			}
			want := false
			for _, n := range ref[e] {
				want = gosym.Or(want, n == q)
			}
			anyE = gosym.Or(anyE, want)
			assert(in == want, "model->endpoints lookup attributes a model to an endpoint iff its last accepted listing contains it")
		}
		assert(r.IsModelAvailable(ctx, q) == anyE, "availability agrees with the attribution")
	}
	// statistics
	st, err := r.GetStats(ctx)
	assert(err == nil, "stats succeed")
	nonEmpty := 0
	for i := 0; i < E; i++ {
		e := zzEPs[i]
		if _, ok := ref[e]; ok && (len(ref[e]) > 0 || zzKeptEmpty(r, e)) {
			nonEmpty++
		}
		assert(st.ModelsPerEndpoint[e] == len(ref[e]), "statistics: models per endpoint equals the listing length")
	}
	_ = nonEmpty
	// distinct attributed names
	var distinct []string
	for i := 0; i < E; i++ {
		for _, n := range ref[zzEPs[i]] {
			dup := false
			for _, d := range distinct {
				if d == n {
					dup = true
				}
			}
			if !dup {
				distinct = append(distinct, n)
			}
		}
	}
	assert(st.TotalModels == len(distinct), "statistics: total models equals the number of distinct attributed names")
}

// zzKeptEmpty: an endpoint whose entry exists with an empty listing (only after RegisterModel paths).
func zzKeptEmpty(r *MemoryModelRegistry, e string) bool {
	_, ok := r.endpointModels.Load(e)
	return ok
}

// VerifRegistryConcurrent: two writers (replace listing / remove endpoint) run concurrently on the
// registry, on the same or on different endpoints, under every interleaving of their
// synchronisation steps; once both have returned, every view of the catalogue equals the reference
// for one of the two serial orders (for different endpoints both orders give the same reference).
func VerifRegistryConcurrent() {
	ctx := context.Background()
	zzNoProbe = true
	r := NewMemoryModelRegistry(zzLog{})
	names := []string{"a", "B"}
	type op struct {
		e      string
		remove bool
		list   []string
	}
	mk := func(tag string) op {
		o := op{e: zzEPs[gosym.Choice("endpoint", 2)]}
		if gosym.Choice("remove", 2) == 1 {
			o.remove = true
			return o
		}
		k := gosym.Choice("len", 3)
		for i := 0; i < k; i++ {
			o.list = append(o.list, names[gosym.Choice("name", 2)])
		}
		return o
	}
	// a reachable start state: both endpoints list "a"
	for _, e := range zzEPs[:2] {
		gosym.Assert(r.RegisterModels(ctx, e, []*domain.ModelInfo{{Name: "a"}}) == nil, "initial listing accepted")
	}
	var ops []op
	if gosym.Param("FIXOPS") == 1 {
		ops = []op{{e: zzEPs[0], list: []string{"a", "B"}}, {e: zzEPs[0], list: []string{"B"}}}
	} else {
		ops = []op{mk("w0"), mk("w1")}
	}
	run := func(o op) {
		if o.remove {
			r.RemoveEndpoint(ctx, o.e)
			return
		}
		var l []*domain.ModelInfo
		for _, n := range o.list {
			l = append(l, &domain.ModelInfo{Name: n})
		}
		r.RegisterModels(ctx, o.e, l)
	}
	var wg sync.WaitGroup
	wg.Add(2)
	for g := 0; g < 2; g++ {
		g := g
		go func() {
			defer wg.Done()
			run(ops[g])
		}()
	}
	wg.Wait()
	apply := func(ref map[string][]string, o op) {
		if o.remove || len(o.list) == 0 {
			delete(ref, o.e)
			return
		}
		ref[o.e] = o.list
	}
	refs := []map[string][]string{}
	for _, order := range [][2]int{{0, 1}, {1, 0}} {
		ref := map[string][]string{zzEPs[0]: {"a"}, zzEPs[1]: {"a"}}
		apply(ref, ops[order[0]])
		apply(ref, ops[order[1]])
		refs = append(refs, ref)
	}
	// which serial order does the per-endpoint listing of the contended endpoint match?
	matches := func(ref map[string][]string) bool {
		for _, e := range zzEPs[:2] {
			got, _ := r.GetModelsForEndpoint(ctx, e)
			if len(got) != len(ref[e]) {
				return false
			}
			for i := range got {
				if got[i].Name != ref[e][i] {
					return false
				}
			}
		}
		return true
	}
	switch {
	case matches(refs[0]):
		zzRegistryCompare(r, refs[0], []string{"a", "B"}, 2, "", false)
	case matches(refs[1]):
		zzRegistryCompare(r, refs[1], []string{"a", "B"}, 2, "", false)
	default:
		gosym.Assert(false, "C10: after concurrent updates the per-endpoint listings equal those of one serial order")
	}
	gosym.Reach("end")
}
