package filter

import (
	"github.com/thushan/olla/internal/core/domain"
	"github.com/thushan/olla/internal/util/pattern"
	"github.com/thushan/olla/internal/zzverif/gosym"
)

func zzPrintable(s string) {
	for i := 0; i < len(s); i++ {
		gosym.Assume(gosym.And(s[i] >= 0x21, s[i] <= 0x7e))
	}
}

// VerifGlobCache: two consecutive lookups (name1,pattern1), (name2,pattern2) with symbolic
// printable-ASCII strings of lengths N1,P1,N2,P2, patterns constrained by the real
// FilterConfig.Validate: the second answer equals the cache-free pattern.MatchesGlob, i.e. the
// result depends on name and pattern only, not on earlier lookups.
func VerifGlobCache() {
	f := NewGlobFilter().(*GlobFilter)
	name1, pat1 := gosym.String("n1", gosym.Param("N1")), gosym.String("p1", gosym.Param("P1"))
	name2, pat2 := gosym.String("n2", gosym.Param("N2")), gosym.String("p2", gosym.Param("P2"))
	zzPrintable(name1)
	zzPrintable(pat1)
	zzPrintable(name2)
	zzPrintable(pat2)
	c1 := &domain.FilterConfig{Exclude: []string{pat1}}
	c2 := &domain.FilterConfig{Exclude: []string{pat2}}
	gosym.Assume(c1.Validate() == nil)
	gosym.Assume(c2.Validate() == nil)
	_ = f.matchesPattern(name1, pat1)
	got := f.matchesPattern(name2, pat2)
	want := pattern.MatchesGlob(name2, pat2)
	same := gosym.And(name1 == name2, pat1 == pat2)
	collide := gosym.And(name1+"::"+pat1 == name2+"::"+pat2, gosym.Not(same))
	gosym.AssertKF(got == want, "a filter lookup depends only on the name and the pattern, not on earlier lookups", "KF-C10-2", collide)
	gosym.Reach("end")
}

// VerifGlobPrecedence: Matches() = (no include patterns or some include matches) and no exclude
// matches, against the cache-free matcher, for one include and one exclude pattern.
func VerifGlobPrecedence() {
	f := NewGlobFilter().(*GlobFilter)
	name := gosym.String("n", gosym.Param("N"))
	inc, exc := gosym.String("inc", gosym.Param("P")), gosym.String("exc", gosym.Param("P"))
	zzPrintable(name)
	zzPrintable(inc)
	zzPrintable(exc)
	cfg := &domain.FilterConfig{}
	hasInc := gosym.Choice("hasInc", 2) == 1
	hasExc := gosym.Choice("hasExc", 2) == 1
	if hasInc {
		cfg.Include = []string{inc}
	}
	if hasExc {
		cfg.Exclude = []string{exc}
	}
	gosym.Assume(cfg.Validate() == nil)
	got := f.Matches(cfg, name)
	want := true
	if hasInc {
		want = pattern.MatchesGlob(name, inc)
	}
	if hasExc {
		want = gosym.And(want, gosym.Not(pattern.MatchesGlob(name, exc)))
	}
	gosym.Assert(got == want, "include/exclude precedence: included and not excluded")
	gosym.Reach("end")
}
