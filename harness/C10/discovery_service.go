package discovery

import (
	"context"
	"errors"
	"time"

	"github.com/thushan/olla/internal/adapter/registry"
	"github.com/thushan/olla/internal/core/domain"
	"github.com/thushan/olla/internal/zzverif/gosym"
)

// zzDiscClient hands the service the listing the backend "returned" (or an error).
type zzDiscClient struct {
	list []*domain.ModelInfo
	err  error
}

func (c *zzDiscClient) DiscoverModels(context.Context, *domain.Endpoint) ([]*domain.ModelInfo, error) {
	return c.list, c.err
}
func (c *zzDiscClient) HealthCheck(context.Context, *domain.Endpoint) error { return nil }
func (c *zzDiscClient) GetMetrics() DiscoveryMetrics                       { return DiscoveryMetrics{} }

// VerifDiscoveryService: C10 one layer up - every sequence of L discovery results for one endpoint
// through the real ModelDiscoveryService.DiscoverEndpoint (real GlobFilter, real MemoryModelRegistry):
// a successful discovery replaces the endpoint's attribution by the filtered listing (also when that
// is empty), a failed discovery leaves it as it was.
func VerifDiscoveryService() {
	L := gosym.Param("L")
	ctx := context.Background()
	reg := registry.NewMemoryModelRegistry(zzLog{})
	cl := &zzDiscClient{}
	svc := NewModelDiscoveryService(cl, nil, reg, DiscoveryConfig{Interval: time.Minute, Timeout: time.Second, ConcurrentWorkers: 1}, zzLog{})
	ep := &domain.Endpoint{Name: "e1", URLString: "http://e1:11434", Type: "ollama", Status: domain.StatusHealthy}
	names := []string{"llama3", "phi3"}
	switch gosym.Choice("filter", 3) {
	case 1: // exclude everything that starts with "phi"
		ep.ModelFilter = &domain.FilterConfig{Exclude: []string{"phi*"}}
	case 2: // include only llama models
		ep.ModelFilter = &domain.FilterConfig{Include: []string{"llama*"}}
	}
	passes := func(n string) bool {
		if ep.ModelFilter == nil {
			return true
		}
		return n == "llama3"
	}
	var ref []string
	for step := 0; step < L; step++ {
		what := gosym.Choice("listing", 5) // subsets of the two names, or a failed discovery
		if what == 4 {
			cl.list, cl.err = nil, errors.New("connection refused")
			gosym.Assert(svc.DiscoverEndpoint(ctx, ep) != nil, "a failed discovery is reported")
		} else {
			cl.err = nil
			cl.list = nil
			var want []string
			for k, n := range names {
				if what&(1<<k) != 0 {
					cl.list = append(cl.list, &domain.ModelInfo{Name: n})
					if passes(n) {
						want = append(want, n)
					}
				}
			}
			gosym.Assert(svc.DiscoverEndpoint(ctx, ep) == nil, "a successful discovery is accepted")
			ref = want
		}
		got, err := reg.GetModelsForEndpoint(ctx, ep.URLString)
		gosym.Assert(err == nil, "listing lookup succeeds")
		same := len(got) == len(ref)
		for i := 0; same && i < len(ref); i++ {
			same = got[i].Name == ref[i]
		}
		gosym.Assert(same, "C10: the endpoint's attribution equals its most recent successful listing after the endpoint's filter (also when that is empty)")
		for _, n := range names {
			eps, _ := reg.GetEndpointsForModel(ctx, n)
			listed := false
			for _, r := range ref {
				if r == n {
					listed = true
				}
			}
			gosym.Assert((len(eps) == 1) == listed, "C10: the model->endpoints lookup follows the latest filtered listing")
		}
	}
	gosym.Reach("end")
}
