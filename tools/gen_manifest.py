#!/usr/bin/env python3
# Regenerates /verif/MANIFEST.json from tools/manifest_data.json + harness/registry.json.
import json, os
root = os.path.dirname(os.path.dirname(os.path.abspath(__file__)))
data = json.load(open(os.path.join(root, 'tools', 'manifest_data.json')))
reg = json.load(open(os.path.join(root, 'harness', 'registry.json')))
props = [json.loads(l) for l in open(os.path.join(root, 'properties.jsonl'))]
checks, na = [], []
for p in props:
    pid = p['id']
    d = data['checks'].get(pid)
    if d and pid in reg:
        checks.append({
            "property_id": pid,
            "quick_cmd": "./check.sh %s quick" % pid,
            "thorough_cmd": "./check.sh %s thorough" % pid,
            "evidence_file": "/verif/evidence/%s.json" % pid,
            "replay_cmd_template": "./bin/gosym replay {path}",
            "engine": "gosym",
            "level_claimed": {"category": "model_checking", "text": d['text'], "design_ref": d.get('design_ref', 'DESIGN.md section 5')},
            "level_note": d['note'],
            "technique": d.get('technique', data['default_technique']),
        })
    else:
        na.append({"property_id": pid, "reason": data['not_applicable'].get(pid, "no check built yet in this session (work in progress); see DESIGN.md section 5")})
m = {
    "version": 1,
    "setup_cmd": "cd /verif/engine && GOFLAGS=-mod=mod GOPROXY=off go build -o /verif/bin/gosym ./cmd/gosym",
    "hooks": {"guard": "verif", "enable": "none needed: harnesses are injected with go/packages overlays and go test -overlay; no source hooks exist in /repo",
              "baseline_off_cmd": json.load(open('/root/.vp/BASELINE.json'))['cmd'] if os.path.exists('/root/.vp/BASELINE.json') else "",
              "source_commits": [], "add_only": True},
    "engines": [{"name": "gosym", "path": "/verif/engine", "serves_properties": [c['property_id'] for c in checks],
                 "kind_free_text": "symbolic executor for Go: fork of x/tools go/ssa/interp with symbolic scalars/byte-vector strings, decision-trail DFS, cvc5/z3 over SMT-LIB2 pipes, native replay of counterexamples and sampled paths"}],
    "checks": checks,
    "notes": data['notes'],
    "not_applicable": na,
}
json.dump(m, open(os.path.join(root, 'MANIFEST.json'), 'w'), indent=1)
print("checks:", [c['property_id'] for c in checks], "n/a:", len(na))
