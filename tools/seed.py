#!/usr/bin/env python3
"""Seeded-change tooling.
  seed.py verify <src-dir> <name>     verify a sub-agent deliverable in a fresh scratch worktree and, if it holds,
                                      keep it as /verif/seeded/<name>/ (patch.diff, demo, meta.json with what was run)
  seed.py check <name> <prop> [tier] [job]  apply seeded/<name>/patch.diff in a scratch worktree, run the property's check on it (VERIF_REPO)
"""
import json, os, re, shutil, subprocess, sys, tempfile, time
ROOT = os.path.dirname(os.path.dirname(os.path.abspath(__file__)))
ENV = dict(os.environ, GOFLAGS='-mod=mod', GOPROXY='off')

def sh(cmd, cwd=None, timeout=3600):
    p = subprocess.run(cmd, shell=True, cwd=cwd, env=ENV, stdout=subprocess.PIPE, stderr=subprocess.STDOUT, timeout=timeout)
    return p.returncode, p.stdout.decode(errors='replace')

def verify(src, name):
    meta = json.load(open(os.path.join(src, 'meta.json')))
    demo = open(os.path.join(src, 'demo_test.go')).read()
    m = re.search(r'//\s*place in:\s*(\S+)', demo)
    if not m:
        print('no "place in" line'); return 1
    place = m.group(1)
    wt = tempfile.mkdtemp(prefix='sv-', dir='/tmp')
    os.rmdir(wt)
    log = {}
    try:
        rc, out = sh('git -C /repo worktree add -q --detach %s HEAD' % wt)
        if rc: print(out); return 1
        demopath = os.path.join(wt, place)
        os.makedirs(os.path.dirname(demopath), exist_ok=True)
        pkg = './' + os.path.dirname(place) + '/'
        runre = '|'.join(re.findall(r'func (Test\w+)\(', demo)) or '.'
        # 1. demo passes on the unchanged tree
        open(demopath, 'w').write(demo)
        rc, out = sh("go test -vet=off -count=1 -run '%s' %s" % (runre, pkg), cwd=wt)
        log['demo_without_change'] = {'rc': rc, 'tail': out[-600:]}
        if rc != 0:
            print('demo does not pass on the unchanged tree'); print(out[-1500:]); return 1
        os.remove(demopath)
        # 2. patch applies, builds
        rc, out = sh('git apply %s' % os.path.join(os.path.abspath(src), 'patch.diff'), cwd=wt)
        if rc: print('patch does not apply', out); return 1
        rc, out = sh('go build ./...', cwd=wt)
        log['build'] = rc
        if rc: print('does not build', out[-1500:]); return 1
        # 3. existing tests pass with the change (whole suite)
        t0 = time.time()
        rc, out = sh('go test -vet=off -count=1 -timeout 25m ./... 2>&1 | grep -v "no test files"', cwd=wt)
        fails = [l for l in out.splitlines() if l.startswith('FAIL') or l.startswith('--- FAIL')]
        # pkg/eventbus' timing-sensitive stress tests fail on this sandbox under load also on the
        # unchanged tree (the package imports nothing from internal/): not attributable to a seed
        flaky = [l for l in fails if 'eventbus' in l or 'TestEventBus_' in l or 'TestWorkerPool_' in l or l.strip() == 'FAIL']
        if len(flaky) == len(fails):
            log['flaky_ignored'] = fails
            fails = []
        log['existing_tests'] = {'cmd': 'go test -vet=off -count=1 ./...', 'failures': fails, 'secs': int(time.time() - t0), 'ok_packages': out.count('\nok ') + out.startswith('ok ')}
        if fails:
            print('existing tests fail with the change:', fails[:10]); return 1
        # 4. demo fails with the change
        open(demopath, 'w').write(demo)
        rc, out = sh("go test -vet=off -count=1 -run '%s' %s" % (runre, pkg), cwd=wt)
        log['demo_with_change'] = {'rc': rc, 'tail': out[-600:]}
        if rc == 0:
            # probabilistic demos: try a few more times
            for _ in range(4):
                rc, out = sh("go test -vet=off -count=1 -run '%s' %s" % (runre, pkg), cwd=wt)
                if rc: break
            log['demo_with_change'] = {'rc': rc, 'tail': out[-600:]}
            if rc == 0:
                print('demo does not fail with the change'); return 1
    finally:
        sh('git -C /repo worktree remove --force %s' % wt)
        shutil.rmtree(wt, ignore_errors=True)
    dst = os.path.join(ROOT, 'seeded', name)
    os.makedirs(dst, exist_ok=True)
    shutil.copy(os.path.join(src, 'patch.diff'), dst)
    shutil.copy(os.path.join(src, 'demo_test.go'), dst)
    meta['demo_place'] = place
    meta['confirmed_by_verif'] = log
    meta['base'] = subprocess.check_output(['git', '-C', '/repo', 'rev-parse', '--short', 'HEAD']).decode().strip()
    json.dump(meta, open(os.path.join(dst, 'meta.json'), 'w'), indent=1)
    print('kept as', dst)
    return 0

def check(name, prop, tier='quick', job=''):
    """Applies the seeded patch in a scratch worktree of /repo (never in /repo itself) and runs the
    registered check against it through VERIF_REPO."""
    d = os.path.join(ROOT, 'seeded', name)
    wt = tempfile.mkdtemp(prefix='sc-', dir='/tmp')
    os.rmdir(wt)
    rc, out = sh('git -C /repo worktree add -q --detach %s HEAD' % wt)
    if rc:
        print(out); return 2
    try:
        rc, out = sh('git apply %s' % os.path.join(d, 'patch.diff'), cwd=wt)
        if rc:
            print('patch does not apply:', out); return 2
        t0 = time.time()
        extra = (' --job %s' % job) if job else ''
        rc, out = sh('VERIF_REPO=%s VERIF_ROOT=%s %s check --property %s --tier %s%s' % (wt, ROOT, os.environ.get('GOSYM_BIN', ROOT + '/bin/gosym'), prop, tier, extra), cwd=ROOT)
        print(out.strip())
        verdict = {0: 'MISSED', 1: 'CAUGHT', 2: 'INFRA'}.get(rc, str(rc))
        print('seed=%s property=%s tier=%s%s -> exit %d %s (%.0fs)' % (name, prop, tier, extra, rc, verdict, time.time() - t0))
        res_path = os.path.join(d, 'results.json')
        res = json.load(open(res_path)) if os.path.exists(res_path) else {}
        key = '%s/%s' % (prop, tier) + (('/' + job) if job else '')
        res[key] = {'exit': rc, 'verdict': verdict, 'lines': [l for l in out.splitlines() if l.startswith(('VIOLATION', 'INFRA', 'KNOWN', '  job='))][:6]}
        json.dump(res, open(res_path, 'w'), indent=1)
        return rc
    finally:
        sh('git -C /repo worktree remove --force %s' % wt)
        shutil.rmtree(wt, ignore_errors=True)
        if not job:
            # evidence files were rewritten by the run on a mutated tree: restore the committed ones
            sh('git -C %s checkout -- evidence' % ROOT)

if __name__ == '__main__':
    if sys.argv[1] == 'verify':
        sys.exit(verify(sys.argv[2], sys.argv[3]))
    if sys.argv[1] == 'check':
        sys.exit(check(*sys.argv[2:]))
