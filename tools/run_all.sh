#!/bin/sh
# usage: tools/run_all.sh [quick|thorough]   -- runs every registered check, prints one line each
cd "$(dirname "$0")/.."
TIER=${1:-quick}
for p in $(python3 -c "import json;print(' '.join(c['property_id'] for c in json.load(open('MANIFEST.json'))['checks']))"); do
  out=$(./check.sh $p $TIER 2>&1); rc=$?
  echo "$p exit=$rc $(echo "$out" | tail -n 1)"
  echo "$out" | grep -E "^(VIOLATION|INFRA)" | head -3
done
