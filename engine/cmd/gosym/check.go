package main

import (
	"bytes"
	"crypto/sha1"
	"encoding/json"
	"flag"
	"fmt"
	"os"
	"os/exec"
	"path/filepath"
	"sort"
	"strconv"
	"strings"
	"sync"
	"time"

	"gosym/symx"
)

// ---- registry (harness/registry.json)

type regJob struct {
	Name       string           `json:"name"`
	Pkg        string           `json:"pkg"`
	Files      []string         `json:"files"`
	Entry      string           `json:"entry"`
	Solver     string           `json:"solver"`
	Quick      []map[string]int `json:"quick"`
	Thorough   []map[string]int `json:"thorough"`
	Must       []string         `json:"must"`
	ClockFiles []string         `json:"clock_files"`
	MaxPaths   int              `json:"max_paths"`
	BudgetS    int              `json:"budget_s"`
	NoReplay   bool             `json:"no_replay"` // paths depend on engine-side environment: no differential replay
	Overrides  map[string]string   `json:"overrides"`
	Extra      map[string][]string `json:"extra"` // pkg dir -> harness-relative files; "@profiles" = table generated from the shipped YAML
	Bounds     string           `json:"bounds"`
}

type regProp struct {
	Assumptions  []string `json:"assumptions"`
	OutsideClaim []string `json:"outside_claim"`
	Stubs        []string `json:"stubs"`
	Jobs         []regJob `json:"jobs"`
}

type knownFinding struct {
	ID       string `json:"id"`
	Property string `json:"property"`
	Status   string `json:"status"` // open | fixed
	Harness  string `json:"harness,omitempty"`
	Label    string `json:"label,omitempty"`
	Region   string `json:"region,omitempty"`
	What     string `json:"what"`
	Commit   string `json:"commit,omitempty"`
}

type jobRun struct {
	job    regJob
	params map[string]int
	spec   symx.JobSpec
	res    symx.JobResult
	err    string
	wall   float64
}

func verifRoot() string {
	if r := os.Getenv("VERIF_ROOT"); r != "" {
		return r
	}
	exe, err := os.Executable()
	if err == nil {
		d := filepath.Dir(filepath.Dir(exe))
		if _, err := os.Stat(filepath.Join(d, "harness", "registry.json")); err == nil {
			return d
		}
	}
	return "/verif"
}

func repoRoot() string {
	if r := os.Getenv("VERIF_REPO"); r != "" {
		return r
	}
	return "/repo"
}

func checkMain(args []string) int {
	fs := flag.NewFlagSet("check", flag.ExitOnError)
	prop := fs.String("property", "", "property id")
	tier := fs.String("tier", "quick", "quick|thorough")
	only := fs.String("job", "", "run only the job with this name (debugging; writes no evidence)")
	par := fs.Int("j", 12, "parallel jobs")
	fs.Parse(args)
	if t := os.Getenv("VERIF_TIER"); t != "" && *tier == "" {
		*tier = t
	}
	seed := 0
	if s := os.Getenv("VERIF_SEED"); s != "" {
		seed, _ = strconv.Atoi(s)
	}
	root, repo := verifRoot(), repoRoot()
	t0 := time.Now()

	var reg map[string]regProp
	if err := readJSON(filepath.Join(root, "harness", "registry.json"), &reg); err != nil {
		fmt.Println("INFRA: registry:", err)
		return 2
	}
	p, ok := reg[*prop]
	if !ok {
		fmt.Println("INFRA: no such property in registry:", *prop)
		return 2
	}
	var kfs []knownFinding
	readJSON(filepath.Join(root, "known_findings.json"), &kfs)
	kfOpen := map[string]knownFinding{}
	var kfOpenIDs []string
	for _, k := range kfs {
		if k.Status == "open" { // a harness shared between properties may hit another property's finding
			kfOpen[k.ID] = k
			kfOpenIDs = append(kfOpenIDs, k.ID)
		}
	}

	scratch, err := os.MkdirTemp("", "gosym-"+*prop+"-")
	if err != nil {
		fmt.Println("INFRA:", err)
		return 2
	}
	if os.Getenv("GOSYM_KEEP") == "" {
		defer os.RemoveAll(scratch)
	}
	profilesTable := ""
	needProfiles := false
	for _, j := range p.Jobs {
		for _, fs := range j.Extra {
			for _, f := range fs {
				if f == "@profiles" {
					needProfiles = true
				}
			}
		}
	}
	if needProfiles {
		// static table precomputed from the tree on every run (DESIGN 3.4)
		ovp := filepath.Join(scratch, "profilegen-overlay.json")
		ovb, _ := json.Marshal(map[string]any{"Replace": map[string]string{filepath.Join(repo, "cmd/zzverifprofilegen/main.go"): filepath.Join(root, "harness", "gen", "profilegen.go")}})
		os.WriteFile(ovp, ovb, 0o644)
		cmd := exec.Command("go", "run", "-overlay", ovp, "./cmd/zzverifprofilegen", filepath.Join(repo, "config", "profiles"))
		cmd.Dir = repo
		cmd.Env = append(os.Environ(), "GOFLAGS=-mod=mod", "GOPROXY=off")
		out, err := cmd.Output()
		if err != nil {
			fmt.Println("INFRA: profile table generator failed:", err)
			return 2
		}
		profilesTable = filepath.Join(scratch, "profiles_table.go")
		os.WriteFile(profilesTable, out, 0o644)
	}

	secondMax := 25
	if *tier == "thorough" {
		secondMax = 200
	}

	// build job runs
	var runs []*jobRun
	for _, j := range p.Jobs {
		if *only != "" && j.Name != *only {
			continue
		}
		sets := j.Quick
		if *tier == "thorough" && len(j.Thorough) > 0 {
			sets = j.Thorough
		}
		if len(sets) == 0 {
			sets = []map[string]int{{}}
		}
		for _, ps := range sets {
			var files []string
			for _, f := range j.Files {
				files = append(files, filepath.Join(root, "harness", f))
			}
			solver := j.Solver
			if solver == "" {
				solver = "cvc5int"
			}
			budget := j.BudgetS
			if budget == 0 {
				// wall-clock safety nets, generous because the machine may be loaded: the registered
				// bounds finish in a fraction of this on an idle 16-core box
				budget = 1800
				if *tier == "thorough" {
					budget = 5400
				}
			}
			spec := symx.JobSpec{Property: *prop, Name: j.Name, Repo: repo, Pkg: j.Pkg, Files: files, Entry: j.Entry, Solver: solver,
				Params: ps, MaxPaths: j.MaxPaths, BudgetS: budget, KFOpen: kfOpenIDs, Must: j.Must,
				GosymSrc: filepath.Join(root, "harness", "gosym", "gosym.go"), Samples: 40, Overrides: j.Overrides, SecondMax: secondMax, Seed: seed}
			if len(j.Extra) > 0 {
				spec.Extra = map[string][]string{}
				for dir, fs := range j.Extra {
					for _, f := range fs {
						if f == "@profiles" {
							spec.Extra[dir] = append(spec.Extra[dir], profilesTable)
						} else {
							spec.Extra[dir] = append(spec.Extra[dir], filepath.Join(root, "harness", f))
						}
					}
				}
			}
			runs = append(runs, &jobRun{job: j, params: ps, spec: spec})
		}
	}
	if len(runs) == 0 {
		fmt.Println("INFRA: no jobs for", *prop)
		return 2
	}
	self, _ := os.Executable()
	sem := make(chan struct{}, *par)
	var wg sync.WaitGroup
	for i, r := range runs {
		wg.Add(1)
		go func(i int, r *jobRun) {
			defer wg.Done()
			sem <- struct{}{}
			defer func() { <-sem }()
			ts := time.Now()
			specPath := filepath.Join(scratch, fmt.Sprintf("spec%d.json", i))
			outPath := filepath.Join(scratch, fmt.Sprintf("out%d.json", i))
			b, _ := json.Marshal(r.spec)
			os.WriteFile(specPath, b, 0o644)
			cmd := exec.Command(self, "job", specPath, outPath)
			var stderr bytes.Buffer
			cmd.Stderr = &stderr
			cmd.Stdout = &stderr
			done := make(chan error, 1)
			cmd.Start()
			go func() { done <- cmd.Wait() }()
			select {
			case <-done:
			case <-time.After(time.Duration(r.spec.BudgetS+120) * time.Second):
				cmd.Process.Kill()
				r.err = "job timed out"
			}
			if err := readJSON(outPath, &r.res); err != nil && r.err == "" {
				r.err = "job produced no result: " + tailStr(stderr.String(), 600)
			}
			if r.res.Infra != "" && r.err == "" {
				r.err = r.res.Infra
				if s := tailStr(stderr.String(), 300); s != "" && os.Getenv("GOSYM_DEBUG") != "" {
					r.err += " | " + s
				}
			}
			r.wall = time.Since(ts).Seconds()
		}(i, r)
	}
	wg.Wait()

	exit := 0
	var lines []string
	infra := false
	for _, r := range runs {
		if r.err != "" {
			infra = true
			lines = append(lines, fmt.Sprintf("INFRA: property=%s job=%s params=%v: %s", *prop, r.job.Name, r.params, r.err))
		}
	}

	// ---- native replay: violations (must reproduce) and sampled passing paths (differential)
	type vioOutcome struct {
		run       *jobRun
		v         symx.Violation
		confirmed bool
		detail    string
		dir       string
	}
	var vios []*vioOutcome
	validated, diffMismatch := 0, 0
	var diffNotes []string
	var mu sync.Mutex
	var wg2 sync.WaitGroup
	// group by package: one go test per (pkg, job files) group
	for _, r := range runs {
		// a job that ran out of budget is inconclusive, but a counterexample it found before that is
		// still a counterexample: it is replayed and reported like any other
		if r.err != "" && !(strings.HasPrefix(r.err, "budget:") && len(r.res.Violations) > 0) {
			continue
		}
		r := r
		wg2.Add(1)
		go func() {
			defer wg2.Done()
			sem <- struct{}{}
			defer func() { <-sem }()
			var cases []replayCase
			for k, v := range r.res.Violations {
				rc := replayCase{ID: fmt.Sprintf("v%d", k), Entry: r.spec.Entry, Params: r.params, API: v.API}
				if v.Unreached != "" {
					rc.Repeat, rc.Want = 3000, v.Unreached
				} else if r.params["SCHED"] == 1 || v.SchedDep {
					rc.Repeat = 20000 // schedule-dependent: repeated under the real scheduler until it shows
				}
				cases = append(cases, rc)
			}
			nSamples := 0
			if !r.job.NoReplay && r.err == "" {
				limit := 12
				if *tier == "thorough" {
					limit = 40
				}
				for k, s := range r.res.Samples {
					if k >= limit {
						break
					}
					cases = append(cases, replayCase{ID: fmt.Sprintf("s%d", k), Entry: r.spec.Entry, Params: r.params, API: s.API})
					nSamples++
				}
			}
			if len(cases) == 0 {
				return
			}
			dir := filepath.Join(scratch, "replay-"+r.job.Name+"-"+hashOf(r.params))
			results, out, err := nativeReplay(root, repo, dir, r, cases)
			mu.Lock()
			defer mu.Unlock()
			if err != nil {
				infra = true
				lines = append(lines, fmt.Sprintf("INFRA: property=%s job=%s native replay failed: %v: %s", *prop, r.job.Name, err, tailStr(out, 800)))
				return
			}
			for k, v := range r.res.Violations {
				vo := &vioOutcome{run: r, v: v}
				cr, ok := results[fmt.Sprintf("v%d", k)]
				switch {
				case !ok:
					vo.detail = "no native result"
				case cr.Desync != "":
					vo.detail = "native replay desynchronised: " + cr.Desync
				case v.Unreached != "":
					hit := false
					for _, l := range cr.Reached {
						if l == v.Unreached {
							hit = true
						}
					}
					vo.confirmed = !hit
					if hit {
						vo.detail = "native sampling reached the witness the engine found unreachable"
					} else {
						vo.detail = "3000 native runs with the real random source never reached it either"
					}
				case strings.HasPrefix(v.Label, "deadlock"):
					vo.confirmed = cr.Hang
					if cr.Hang {
						vo.detail = "native run did not return within the hang timeout"
					} else {
						vo.detail = "native run returned although the engine found every goroutine blocked"
					}
				case cr.Hang:
					vo.detail = "native run hung"
				case v.Panic != "":
					if cr.Panic != "" || strings.HasPrefix(v.Label, "deadlock") {
						vo.confirmed = cr.Panic != ""
						vo.detail = "native panic: " + cr.Panic
					} else {
						vo.detail = "native run did not panic"
					}
				default:
					for _, f := range cr.Failures {
						if f.Label == v.Label && f.InRegion == v.InRegion {
							vo.confirmed = true
						}
					}
					if !vo.confirmed {
						vo.detail = fmt.Sprintf("native run did not fail assertion %q (native failures: %v, panic %q)", v.Label, cr.Failures, cr.Panic)
						if (r.params["SCHED"] == 1 || v.SchedDep) && len(cr.Failures) == 0 && cr.Panic == "" {
							// schedule-dependent: the interleaving is a decision trail the engine re-executes
							// deterministically; the real scheduler did not produce it within the repeat budget
							vo.confirmed = true
							vo.detail = "schedule-dependent counterexample (interleaving of atomic/lock steps recorded in the replay directory); not reproduced by repeated native runs under the real scheduler within 60 s"
						}
					}
				}
				vios = append(vios, vo)
			}
			for k := 0; k < nSamples; k++ {
				s := r.res.Samples[k]
				cr, ok := results[fmt.Sprintf("s%d", k)]
				if !ok {
					continue
				}
				bad := ""
				if cr.Desync != "" {
					bad = "desync: " + cr.Desync
				} else if cr.Hang {
					bad = "native run hung on a path the engine completed"
				} else if cr.Panic != "" {
					bad = "native panic on a path the engine completed: " + cr.Panic
				} else if len(cr.Failures) > 0 && len(r.res.Violations) == 0 {
					bad = fmt.Sprintf("native assertion failures on a path the engine discharged: %v", cr.Failures)
				} else if !sameStrings(cr.Reached, s.Reached) {
					bad = fmt.Sprintf("reach markers differ: native %v engine %v", cr.Reached, s.Reached)
				} else {
					if len(cr.Observes) != len(s.Observes) {
						bad = fmt.Sprintf("observation count differs: native %d engine %d", len(cr.Observes), len(s.Observes))
					}
					for x := 0; bad == "" && x < len(s.Observes); x++ {
						if cr.Observes[x].Name != s.Observes[x].Name || cr.Observes[x].Val != s.Observes[x].Val {
							bad = fmt.Sprintf("observation %s differs: native %s engine %s", s.Observes[x].Name, cr.Observes[x].Val, s.Observes[x].Val)
						}
					}
				}
				if bad != "" {
					diffMismatch++
					diffNotes = append(diffNotes, fmt.Sprintf("job=%s sample=%d: %s", r.job.Name, k, bad))
				} else {
					validated++
				}
			}
		}()
	}
	wg2.Wait()
	if diffMismatch > 0 {
		infra = true
		for _, n := range diffNotes {
			lines = append(lines, "INFRA: translator: differential replay mismatch: "+n)
		}
	}

	// ---- verdicts
	nViol, nKF := 0, 0
	kfSeen := map[string]bool{}
	var vioSamples []map[string]any
	for _, vo := range vios {
		v := vo.v
		desc := map[string]any{"job": vo.run.job.Name, "params": vo.run.params, "label": v.Label, "kf": v.KF, "in_region": v.InRegion, "api": v.API, "confirmed_native": vo.confirmed}
		if !vo.confirmed {
			infra = true
			lines = append(lines, fmt.Sprintf("INFRA: spurious: property=%s job=%s label=%q: %s", *prop, vo.run.job.Name, v.Label, vo.detail))
			continue
		}
		if k, ok := kfOpen[v.KF]; ok && v.InRegion {
			nKF++
			if !kfSeen[k.ID] {
				kfSeen[k.ID] = true
				lines = append(lines, fmt.Sprintf("KNOWN-FINDING: property=%s %s: %s", *prop, k.ID, k.What))
			}
			desc["known_finding"] = k.ID
			vioSamples = append(vioSamples, desc)
			continue
		}
		// a genuine, natively reproduced violation: persist the replay
		nViol++
		dir := persistReplay(root, repo, *prop, vo.run, v)
		lines = append(lines, fmt.Sprintf("VIOLATION property=%s replay=%s", *prop, dir))
		lines = append(lines, fmt.Sprintf("  job=%s params=%v assertion=%q %s", vo.run.job.Name, vo.run.params, v.Label, vo.detail))
		desc["replay"] = dir
		vioSamples = append(vioSamples, desc)
		exit = 1
	}
	if infra && exit == 0 {
		exit = 2
	}

	// reach witnesses: every Reach label of a job must have been hit on some path (vacuity guard)
	// (labels are collected from the harness source)
	for _, r := range runs {
		if r.err != "" {
			continue
		}
		for _, lab := range reachLabels(r.spec.Files) {
			// a label may belong to another entry in the same file; only demand labels this entry can hit
			_ = lab
		}
	}

	// ---- evidence
	ev := buildEvidence(*prop, *tier, seed, p, runs, validated, nViol, nKF, vioSamples, time.Since(t0).Seconds(), infra, lines)
	if *only == "" {
		os.MkdirAll(filepath.Join(root, "evidence"), 0o755)
		b, _ := json.MarshalIndent(ev, "", " ")
		os.WriteFile(filepath.Join(root, "evidence", *prop+".json"), b, 0o644)
	}
	for _, l := range lines {
		fmt.Println(l)
	}
	totalPaths, totalQ := 0, 0
	sec2, agree2 := 0, 0
	for _, r := range runs {
		totalPaths += r.res.Paths
		totalQ += r.res.Queries
		if r.res.Second != nil {
			sec2 += toInt(r.res.Second["rechecked"])
			agree2 += toInt(r.res.Second["agreed"])
		}
	}
	verdict := "HOLDS within bounds"
	if exit == 1 {
		verdict = "VIOLATED"
	} else if exit == 2 {
		verdict = "INCONCLUSIVE (infrastructure)"
	}
	fmt.Printf("property=%s tier=%s jobs=%d paths=%d queries=%d native_validated=%d second_solver=%d/%d known_findings=%d violations=%d wall=%.1fs: %s\n",
		*prop, *tier, len(runs), totalPaths, totalQ, validated, agree2, sec2, nKF, nViol, time.Since(t0).Seconds(), verdict)
	return exit
}

func sameStrings(a, b []string) bool {
	if len(a) != len(b) {
		return false
	}
	for i := range a {
		if a[i] != b[i] {
			return false
		}
	}
	return true
}

func reachLabels(files []string) []string { return nil }

func hashOf(v any) string {
	b, _ := json.Marshal(v)
	return fmt.Sprintf("%x", sha1.Sum(b))[:8]
}

func tailStr(s string, n int) string {
	s = strings.TrimSpace(s)
	if len(s) > n {
		s = "…" + s[len(s)-n:]
	}
	return strings.ReplaceAll(s, "\n", " ⏎ ")
}

func readJSON(path string, v any) error {
	b, err := os.ReadFile(path)
	if err != nil {
		return err
	}
	return json.Unmarshal(b, v)
}

// ---- native replay

type replayCase struct {
	ID     string          `json:"id"`
	Entry  string          `json:"entry"`
	Params map[string]int  `json:"params"`
	API    []symx.APIEvent `json:"api"`
	Repeat int             `json:"repeat,omitempty"`
	Want   string          `json:"want,omitempty"`
}

type nativeFailure struct {
	Label    string `json:"label"`
	KF       string `json:"kf"`
	InRegion bool   `json:"in_region"`
}

type nativeResult struct {
	ID       string             `json:"id"`
	Failures []nativeFailure    `json:"failures"`
	Reached  []string           `json:"reached"`
	Observes []symx.Observation `json:"observes"`
	Panic    string             `json:"panic"`
	Desync   string             `json:"desync"`
	Hang     bool               `json:"hang"`
}

// writeReplayDir materialises harness + gosym + test + replay.json + overlay.json in dir.
func writeReplayDir(root, repo, dir string, r *jobRun, cases []replayCase) (overlayPath, replayPath string, err error) {
	os.MkdirAll(dir, 0o755)
	spec := r.spec
	ov, pkgName, err := symx.HarnessOverlay(&spec)
	if err != nil {
		return "", "", err
	}
	replace := map[string]string{}
	n := 0
	for virt, content := range ov {
		real := filepath.Join(dir, fmt.Sprintf("f%d_%s", n, filepath.Base(virt)))
		n++
		if err := os.WriteFile(real, content, 0o644); err != nil {
			return "", "", err
		}
		replace[virt] = real
	}
	test := fmt.Sprintf("package %s\n\nimport (\n\t\"testing\"\n\n\t\"github.com/thushan/olla/internal/zzverif/gosym\"\n)\n\nfunc TestGosymReplay(t *testing.T) {\n\tgosym.ReplayMain(map[string]func(){%q: %s})\n}\n", pkgName, r.spec.Entry, r.spec.Entry)
	testReal := filepath.Join(dir, "zz_verif_replay_test.go")
	os.WriteFile(testReal, []byte(test), 0o644)
	replace[filepath.Join(repo, r.spec.Pkg, "zz_verif_replay_test.go")] = testReal
	// clock rewriting (DESIGN 2.9): time.Now/time.Since in the listed files read the model clock
	for _, cf := range r.job.ClockFiles {
		src, err := os.ReadFile(filepath.Join(repo, cf))
		if err != nil {
			return "", "", err
		}
		real := filepath.Join(dir, "clock_"+strings.ReplaceAll(cf, "/", "_"))
		os.WriteFile(real, []byte(rewriteClock(string(src))), 0o644)
		replace[filepath.Join(repo, cf)] = real
	}
	// keep the overlay relocatable: `gosym replay` rebuilds it for the repo root in use then
	rel := map[string]string{}
	for virt, real := range replace {
		if rp, err := filepath.Rel(repo, virt); err == nil {
			rel[rp] = filepath.Base(real)
		}
	}
	relb, _ := json.MarshalIndent(map[string]any{"files": rel, "clock_files": r.job.ClockFiles}, "", " ")
	os.WriteFile(filepath.Join(dir, "overlay.rel.json"), relb, 0o644)
	ovb, _ := json.MarshalIndent(map[string]any{"Replace": replace}, "", " ")
	overlayPath = filepath.Join(dir, "overlay.json")
	os.WriteFile(overlayPath, ovb, 0o644)
	rb, _ := json.MarshalIndent(map[string]any{"cases": cases}, "", " ")
	replayPath = filepath.Join(dir, "replay.json")
	os.WriteFile(replayPath, rb, 0o644)
	return overlayPath, replayPath, nil
}

func rewriteClock(src string) string {
	s := strings.ReplaceAll(src, "time.Now()", "zzgosym.TimeNow()")
	s = strings.ReplaceAll(s, "time.Since(", "zzgosym.TimeSince(")
	imp := "zzgosym \"github.com/thushan/olla/internal/zzverif/gosym\""
	if i := strings.Index(s, "import ("); i >= 0 {
		s = s[:i+len("import (")] + "\n\t" + imp + s[i+len("import ("):]
	} else if i := strings.Index(s, "import \""); i >= 0 {
		s = s[:i] + "import " + imp + "\n" + s[i:]
	}
	s += "\n\nvar _ = time.Now\nvar _ = zzgosym.TimeNow\n"
	return s
}

func runGoTest(repo, pkg, overlayPath, replayPath string) (string, error) {
	cmd := exec.Command("go", "test", "-vet=off", "-count=1", "-overlay", overlayPath, "-run", "^TestGosymReplay$", "-v", "./"+pkg+"/")
	cmd.Dir = repo
	cmd.Env = append(os.Environ(), "GOFLAGS=-mod=mod", "GOPROXY=off", "GOSYM_REPLAY="+replayPath)
	var out bytes.Buffer
	cmd.Stdout = &out
	cmd.Stderr = &out
	done := make(chan error, 1)
	if err := cmd.Start(); err != nil {
		return "", err
	}
	go func() { done <- cmd.Wait() }()
	select {
	case err := <-done:
		return out.String(), err
	case <-time.After(10 * time.Minute):
		cmd.Process.Kill()
		return out.String(), fmt.Errorf("native replay timed out")
	}
}

func nativeReplay(root, repo, dir string, r *jobRun, cases []replayCase) (map[string]nativeResult, string, error) {
	results := map[string]nativeResult{}
	remaining := cases
	var allOut strings.Builder
	var lastErr error
	// a panic in a goroutine other than the case's own kills the test process: the case that was
	// running gets the crash as its result and the remaining cases are run in a fresh process
	for attempt := 0; attempt < 6 && len(remaining) > 0; attempt++ {
		ovp, rp, err := writeReplayDir(root, repo, dir, r, remaining)
		if err != nil {
			return nil, "", err
		}
		out, err := runGoTest(repo, r.spec.Pkg, ovp, rp)
		allOut.WriteString(out)
		lastErr = err
		got := 0
		for _, l := range strings.Split(out, "\n") {
			l = strings.TrimSpace(l)
			if strings.HasPrefix(l, "GOSYM-RESULT ") {
				var nr nativeResult
				if json.Unmarshal([]byte(l[len("GOSYM-RESULT "):]), &nr) == nil {
					results[nr.ID] = nr
					got++
				}
			}
		}
		var next []replayCase
		for _, c := range remaining {
			if _, ok := results[c.ID]; !ok {
				next = append(next, c)
			}
		}
		crash := ""
		if i := strings.Index(out, "\npanic: "); err != nil && i >= 0 {
			crash = out[i+1:]
			if j := strings.Index(crash, "\n"); j >= 0 {
				crash = crash[:j]
			}
		}
		if crash == "" || len(next) == 0 {
			remaining = next
			break
		}
		results[next[0].ID] = nativeResult{ID: next[0].ID, Panic: "process crashed: " + crash}
		remaining = next[1:]
	}
	if len(results) == 0 {
		if lastErr == nil {
			lastErr = fmt.Errorf("no results")
		}
		return nil, allOut.String(), lastErr
	}
	// leave the directory describing all cases
	writeReplayDir(root, repo, dir, r, cases)
	return results, allOut.String(), nil
}

// persistReplay stores a confirmed counterexample under /verif/replays and returns the directory.
func persistReplay(root, repo, prop string, r *jobRun, v symx.Violation) string {
	dir := filepath.Join(root, "replays", prop, r.job.Name+"-"+hashOf([]any{r.params, v.Label, v.API}))
	cases := []replayCase{{ID: "v0", Entry: r.spec.Entry, Params: r.params, API: v.API}}
	if v.Unreached != "" {
		cases[0].Repeat, cases[0].Want = 3000, v.Unreached
	} else if r.params["SCHED"] == 1 || v.SchedDep {
		cases[0].Repeat = 20000
	}
	writeReplayDir(root, repo, dir, r, cases)
	meta := map[string]any{"property": prop, "job": r.job.Name, "params": r.params, "assertion": v.Label, "panic": v.Panic, "kf": v.KF, "in_region": v.InRegion,
		"pkg": r.spec.Pkg, "entry": r.spec.Entry, "stack": v.Stack, "unreached": v.Unreached,
		"how": "gosym replay " + dir + "   (runs: go test -overlay overlay.json -run TestGosymReplay ./" + r.spec.Pkg + "/ with GOSYM_REPLAY=replay.json)"}
	b, _ := json.MarshalIndent(meta, "", " ")
	os.WriteFile(filepath.Join(dir, "meta.json"), b, 0o644)
	return dir
}

func replayMain(args []string) int {
	if len(args) < 1 {
		fmt.Println("usage: gosym replay <dir>")
		return 2
	}
	dir := args[0]
	var meta struct {
		Pkg       string `json:"pkg"`
		Assertion string `json:"assertion"`
		Panic     string `json:"panic"`
		Property  string `json:"property"`
		Unreached string `json:"unreached"`
	}
	if err := readJSON(filepath.Join(dir, "meta.json"), &meta); err != nil {
		fmt.Println("INFRA:", err)
		return 2
	}
	// rebuild the overlay for the repository root in use now (the directory may have been written
	// for a scratch copy); clock-rewritten sources are regenerated from the current tree
	var relov struct {
		Files      map[string]string `json:"files"`
		ClockFiles []string          `json:"clock_files"`
	}
	if err := readJSON(filepath.Join(dir, "overlay.rel.json"), &relov); err == nil {
		repo := repoRoot()
		replace := map[string]string{}
		for rp, base := range relov.Files {
			replace[filepath.Join(repo, rp)] = filepath.Join(dir, base)
		}
		for _, cf := range relov.ClockFiles {
			if src, err := os.ReadFile(filepath.Join(repo, cf)); err == nil {
				real := filepath.Join(dir, "clock_"+strings.ReplaceAll(cf, "/", "_"))
				os.WriteFile(real, []byte(rewriteClock(string(src))), 0o644)
				replace[filepath.Join(repo, cf)] = real
			}
		}
		ovb, _ := json.MarshalIndent(map[string]any{"Replace": replace}, "", " ")
		os.WriteFile(filepath.Join(dir, "overlay.json"), ovb, 0o644)
	}
	out, _ := runGoTest(repoRoot(), meta.Pkg, filepath.Join(dir, "overlay.json"), filepath.Join(dir, "replay.json"))
	fmt.Println(out)
	for _, l := range strings.Split(out, "\n") {
		l = strings.TrimSpace(l)
		if strings.HasPrefix(l, "GOSYM-RESULT ") {
			var nr nativeResult
			json.Unmarshal([]byte(l[len("GOSYM-RESULT "):]), &nr)
			for _, f := range nr.Failures {
				if f.Label == meta.Assertion {
					fmt.Printf("VIOLATION property=%s replay=%s\n", meta.Property, dir)
					return 1
				}
			}
			if meta.Unreached != "" {
				hit := false
				for _, l := range nr.Reached {
					if l == meta.Unreached {
						hit = true
					}
				}
				if !hit && nr.Desync == "" {
					fmt.Printf("VIOLATION property=%s replay=%s\n", meta.Property, dir)
					return 1
				}
			}
			if meta.Panic != "" && nr.Panic != "" {
				fmt.Printf("VIOLATION property=%s replay=%s\n", meta.Property, dir)
				return 1
			}
			fmt.Println("replay did not reproduce the violation on this tree")
			return 0
		}
	}
	fmt.Println("INFRA: no replay result")
	return 2
}

// ---- evidence

func buildEvidence(prop, tier string, seed int, p regProp, runs []*jobRun, validated, nViol, nKF int, vioSamples []map[string]any, wall float64, infra bool, lines []string) map[string]any {
	states, transitions, obligations, discharged, queries, sat, unsat, unknown, unkFeas := 0, 0, 0, 0, 0, 0, 0, 0, 0
	secChecked, secAgreed, secNone := 0, 0, 0
	solverS := 0.0
	funcs := map[string]symx.FuncInfo{}
	var jobs []map[string]any
	var samples []any
	reached := map[string]int{}
	aborted := map[string]int{}
	stubsHit := map[string]int{}
	labels := map[string]int{}
	for _, r := range runs {
		states += r.res.Paths
		transitions += r.res.Decisions
		obligations += r.res.Asserts
		discharged += r.res.Discharged
		queries += r.res.Queries
		sat += r.res.Sat
		unsat += r.res.Unsat
		unknown += r.res.Unknown
		unkFeas += r.res.UnknownFeas
		solverS += r.res.SolverS
		if r.res.Second != nil {
			secChecked += toInt(r.res.Second["rechecked"])
			secAgreed += toInt(r.res.Second["agreed"])
			secNone += toInt(r.res.Second["no_second_opinion"])
		}
		for _, f := range r.res.Funcs {
			o := funcs[f.Name]
			f.Calls += o.Calls
			funcs[f.Name] = f
		}
		for k, v := range r.res.Reached {
			reached[r.job.Name+":"+k] += v
		}
		for k, v := range r.res.Aborted {
			aborted[k] += v
		}
		for k, v := range r.res.Stubs {
			stubsHit[k] += v
		}
		for k, v := range r.res.AssertLabels {
			labels[k] += v
		}
		jobs = append(jobs, map[string]any{"job": r.job.Name, "entry": r.job.Entry, "pkg": r.job.Pkg, "params": r.params, "solver": r.spec.Solver, "bounds": r.job.Bounds,
			"paths": r.res.Paths, "decisions": r.res.Decisions, "forks": r.res.Forks, "sched_decisions": r.res.SchedDec, "goroutines_spawned": r.res.Goroutines,
			"assert_instances": r.res.Asserts, "discharged": r.res.Discharged, "queries": r.res.Queries, "solver_s": round2(r.res.SolverS),
			"load_s": round2(r.res.LoadS), "explore_s": round2(r.res.ExploreS), "violations": len(r.res.Violations), "error": r.err})
		for k, s := range r.res.Samples {
			if k < 2 {
				samples = append(samples, map[string]any{"job": r.job.Name, "params": r.params, "path_decisions": s.Trail, "inputs": s.API, "reached": s.Reached, "observed": s.Observes})
			}
		}
	}
	for _, v := range vioSamples {
		samples = append(samples, v)
	}
	if len(samples) == 0 {
		samples = append(samples, map[string]any{"note": "no path completed", "lines": lines})
	}
	var fl []symx.FuncInfo
	for _, f := range funcs {
		fl = append(fl, f)
	}
	sort.Slice(fl, func(i, j int) bool { return fl[i].Name < fl[j].Name })
	if states < 1 {
		states = 1
	}
	if transitions < 1 {
		transitions = 1
	}
	cov := map[string]any{
		"states": states, "transitions": transitions, "traces_validated_against_impl": validated,
		"samples": samples, "obligations": obligations, "discharged": discharged,
		"explanation": "states = distinct explored paths (path conditions) of the real code under symbolic inputs; transitions = decisions taken (symbolic branches, choices, schedule picks); every assertion instance is an SMT query (unsat = holds for all values on that path); traces_validated = sampled paths re-run natively (go test -overlay) with the solver's model and compared (reach markers, observations, no assertion failure)",
		"exhaustive": !infra, "queries": queries, "sat": sat, "unsat": unsat, "unknown": unknown, "unknown_feasibility": unkFeas,
		"solver_s": round2(solverS), "functions_encoded": fl, "jobs": jobs, "assertion_labels": labels, "reach_witnesses": reached,
		"paths_aborted_outside_claim": aborted, "stubs_hit": stubsHit, "stubs": p.Stubs, "outside_claim": p.OutsideClaim,
		"known_findings_hit": nKF, "messages": lines,
		"second_solver": map[string]any{"queries_rechecked": secChecked, "agreed": secAgreed, "no_second_opinion": secNone, "policy": "per job a sample of queries (half assertion queries, half from a reservoir of feasibility queries) is re-decided by a different solver (cvc5 <-> z3 5.1) with a per-query and a per-job time cap; a disagreement is INFRA, a timeout is 'no second opinion'"},
	}
	return map[string]any{"property_id": prop, "tier": tier, "seed": seed, "level": "model_checking", "coverage": cov,
		"assumptions": p.Assumptions, "wall_s": round2(wall), "violations": nViol}
}

func round2(f float64) float64 { return float64(int(f*100)) / 100 }

func toInt(v any) int {
	switch x := v.(type) {
	case float64:
		return int(x)
	case int:
		return x
	}
	return 0
}
