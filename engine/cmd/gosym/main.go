package main

import (
	"runtime/pprof"
	"encoding/json"
	"fmt"
	"os"

	"gosym/symx"
)

func main() {
	if len(os.Args) < 2 {
		fmt.Fprintln(os.Stderr, "usage: gosym job <spec.json> [out.json] | check --property Cxx --tier quick|thorough | replay <dir>")
		os.Exit(2)
	}
	switch os.Args[1] {
	case "job":
		b, err := os.ReadFile(os.Args[2])
		if err != nil {
			fmt.Fprintln(os.Stderr, err)
			os.Exit(2)
		}
		var spec symx.JobSpec
		if err := json.Unmarshal(b, &spec); err != nil {
			fmt.Fprintln(os.Stderr, err)
			os.Exit(2)
		}
		if pf := os.Getenv("GOSYM_CPUPROFILE"); pf != "" {
			f, _ := os.Create(pf)
			pprof.StartCPUProfile(f)
			defer pprof.StopCPUProfile()
		}
		res := symx.RunJob(spec)
		pprof.StopCPUProfile()
		out := res.JSON()
		if len(os.Args) > 3 {
			os.WriteFile(os.Args[3], out, 0o644)
		} else {
			os.Stdout.Write(out)
		}
		if res.Infra != "" {
			os.Exit(2)
		}
	case "check":
		os.Exit(checkMain(os.Args[2:]))
	case "replay":
		os.Exit(replayMain(os.Args[2:]))
	default:
		fmt.Fprintln(os.Stderr, "unknown subcommand", os.Args[1])
		os.Exit(2)
	}
}
