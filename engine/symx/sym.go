package symx

import (
	"fmt"
	"go/token"
	"go/types"
	"os"
	"sort"
	"strconv"
	"strings"
	"time"

	"golang.org/x/tools/go/ssa"
)

// sym is a symbolic scalar: a named SMT term of sort Bool (bits==0) or (_ BitVec bits).
type sym struct {
	name string
	bits int
}

type pathAbort struct{ why string }

// infraError aborts the whole job: the engine cannot decide (unsupported construct, solver
// error, budget).  It is never a verdict.
type infraError struct{ msg string }

type decision struct {
	choice  int
	pending []int
	n       int
}

// APIEvent is one value handed to the harness by the gosym API on a path; the sequence is
// what the native replay feeds back to the same harness compiled natively.
type APIEvent struct {
	Kind string `json:"k"` // int|uint|bool|byte|choice|str|bytes|clock0|adv
	Name string `json:"n"`
	Bits int    `json:"b,omitempty"`
	// term names (symbolic) or literal values; filled into Val when a model is taken
	terms []string
	Val   string `json:"v"`
}

type Observation struct {
	Name string `json:"n"`
	Val  string `json:"v"`
	term value
}

type Violation struct {
	Label     string     `json:"label"`
	KF        string     `json:"kf,omitempty"`
	InRegion  bool       `json:"in_region"`
	Panic     string     `json:"panic,omitempty"`
	Trail     []int      `json:"trail"`
	API       []APIEvent `json:"api"`
	Entry     string     `json:"entry"`
	Stack     []string   `json:"stack,omitempty"`
	EnvChoice bool       `json:"env_choice"` // path took a non-default engine-side (stub) decision
	SchedDep  bool       `json:"sched_dep"`  // path took a scheduler/select decision a native run cannot be forced into
	Unreached string     `json:"unreached,omitempty"` // cross-path: this expected witness label was never reached
}

type PathSample struct {
	Trail    []int         `json:"trail"`
	API      []APIEvent    `json:"api"`
	Observes []Observation `json:"observes,omitempty"`
	Reached  []string      `json:"reached,omitempty"`
}

type Engine struct {
	z          *solver
	defs       map[string]string // sort|expr -> name
	ndefs      int
	declared   map[string]bool
	trail      []decision
	pos        int
	pc         []string
	nfresh     int
	clock      value // int64 or sym(64); nil until first use
	freshNames []string
	api        []APIEvent
	observes   []Observation
	reachedNow []string
	Expected   map[string][]APIEvent // label -> API prefix of the first path that declared it
	envChoice  bool
	jsonVals   []value
	events     [][2]value
	pending    []func()
	panicStack []string

	// configuration
	Params    map[string]int
	MaxPaths  int
	Deadline  time.Time
	SampleN   int
	Unwind    int
	EntryName string
	KFOpen    map[string]bool
	Overrides map[string]*ssa.Function
	desNow      int64
	desTimers   []*xchan
	TimersFired int
	hangKF      string
	hangRegion  bool
	pathNondet  bool // the path took a scheduler / select decision the native run cannot be forced into

	// results
	Paths        int
	Aborted      map[string]int
	Forks        int
	Decisions    int
	Asserts      int            // assertion instances checked
	Discharged   int            // assertion instances proved (unsat or concretely true)
	AssertLabels map[string]int // label -> instances
	Violations   []Violation
	Reached      map[string]int
	Samples      []PathSample
	UnknownFeas  int
	funcsRun     map[*ssa.Function]int
	Stubs        map[string]int
	concState
}

var E *Engine

func NewEngine(solverKind string) *Engine {
	e := &Engine{z: newSolver(solverKind), defs: map[string]string{}, declared: map[string]bool{}, Reached: map[string]int{},
		MaxPaths: 200000, Aborted: map[string]int{}, AssertLabels: map[string]int{}, Stubs: map[string]int{},
		Expected: map[string][]APIEvent{}, Params: map[string]int{}, KFOpen: map[string]bool{}, SampleN: 40}
	return e
}

func (e *Engine) def(sort, expr string) string {
	key := sort + "|" + expr
	if n, ok := e.defs[key]; ok {
		return n
	}
	e.ndefs++
	n := fmt.Sprintf("t%d", e.ndefs)
	e.z.send(fmt.Sprintf("(define-fun %s () %s %s)", n, sort, expr))
	e.defs[key] = n
	return n
}

func sortOf(bits int) string {
	if bits == 0 {
		return "Bool"
	}
	return fmt.Sprintf("(_ BitVec %d)", bits)
}

func (e *Engine) mk(bits int, expr string) sym { return sym{e.def(sortOf(bits), expr), bits} }

func (e *Engine) fresh(label string, bits int) sym {
	e.nfresh++
	n := fmt.Sprintf("v%d_%s", e.nfresh, sanitize(label))
	if !e.declared[n] {
		e.declared[n] = true
		e.z.send(fmt.Sprintf("(declare-const %s %s)", n, sortOf(bits)))
	}
	e.freshNames = append(e.freshNames, n)
	return sym{n, bits}
}

func sanitize(s string) string {
	var b strings.Builder
	for _, c := range s {
		if c >= 'a' && c <= 'z' || c >= 'A' && c <= 'Z' || c >= '0' && c <= '9' || c == '_' {
			b.WriteRune(c)
		} else {
			b.WriteByte('_')
		}
	}
	return b.String()
}

func bvconst(v uint64, bits int) string {
	if bits < 64 {
		v &= (1 << uint(bits)) - 1
	}
	return fmt.Sprintf("(_ bv%d %d)", v, bits)
}

// basicInfo returns bit width and signedness for a Go basic integer/bool type.
func basicInfo(t types.Type) (bits int, signed bool, ok bool) {
	b, isb := t.Underlying().(*types.Basic)
	if !isb {
		return 0, false, false
	}
	switch b.Kind() {
	case types.Bool, types.UntypedBool:
		return 0, false, true
	case types.Int, types.Int64, types.UntypedInt:
		return 64, true, true
	case types.Int8:
		return 8, true, true
	case types.Int16:
		return 16, true, true
	case types.Int32, types.UntypedRune:
		return 32, true, true
	case types.Uint, types.Uint64, types.Uintptr:
		return 64, false, true
	case types.Uint8:
		return 8, false, true
	case types.Uint16:
		return 16, false, true
	case types.Uint32:
		return 32, false, true
	}
	return 0, false, false
}

func isSym(v value) bool { _, ok := v.(sym); return ok }

// term turns a scalar into a term string of the given width.
func (e *Engine) term(v value, bits int) string {
	switch v := v.(type) {
	case sym:
		return v.name
	case bool:
		if v {
			return "true"
		}
		return "false"
	case int:
		return bvconst(uint64(v), bits)
	case int8:
		return bvconst(uint64(v), bits)
	case int16:
		return bvconst(uint64(v), bits)
	case int32:
		return bvconst(uint64(v), bits)
	case int64:
		return bvconst(uint64(v), bits)
	case uint:
		return bvconst(uint64(v), bits)
	case uint8:
		return bvconst(uint64(v), bits)
	case uint16:
		return bvconst(uint64(v), bits)
	case uint32:
		return bvconst(uint64(v), bits)
	case uint64:
		return bvconst(v, bits)
	case uintptr:
		return bvconst(uint64(v), bits)
	}
	panic(infraError{fmt.Sprintf("term: cannot lift %T", v)})
}

func (e *Engine) symBinop(op token.Token, t types.Type, x, y value) value {
	bits, signed, ok := basicInfo(t)
	if !ok {
		panic(infraError{fmt.Sprintf("symBinop: unsupported operand type %s for %s", t, op)})
	}
	a := e.term(x, bits)
	var b string
	switch op {
	case token.SHL, token.SHR:
		b = e.shiftCount(y, bits)
	default:
		b = e.term(y, bits)
	}
	if bits == 0 { // bool
		switch op {
		case token.EQL:
			return e.mk(0, fmt.Sprintf("(= %s %s)", a, b))
		case token.NEQ:
			return e.mk(0, fmt.Sprintf("(not (= %s %s))", a, b))
		case token.LAND, token.AND:
			return e.mk(0, fmt.Sprintf("(and %s %s)", a, b))
		case token.LOR, token.OR:
			return e.mk(0, fmt.Sprintf("(or %s %s)", a, b))
		}
		panic(infraError{"symBinop bool op " + op.String()})
	}
	pick := func(s, u string) string {
		if signed {
			return s
		}
		return u
	}
	switch op {
	case token.ADD:
		return e.mk(bits, fmt.Sprintf("(bvadd %s %s)", a, b))
	case token.SUB:
		return e.mk(bits, fmt.Sprintf("(bvsub %s %s)", a, b))
	case token.MUL:
		return e.mk(bits, fmt.Sprintf("(bvmul %s %s)", a, b))
	case token.QUO:
		e.checkDivZero(y, bits)
		return e.mk(bits, fmt.Sprintf("(%s %s %s)", pick("bvsdiv", "bvudiv"), a, b))
	case token.REM:
		e.checkDivZero(y, bits)
		return e.mk(bits, fmt.Sprintf("(%s %s %s)", pick("bvsrem", "bvurem"), a, b))
	case token.AND:
		return e.mk(bits, fmt.Sprintf("(bvand %s %s)", a, b))
	case token.OR:
		return e.mk(bits, fmt.Sprintf("(bvor %s %s)", a, b))
	case token.XOR:
		return e.mk(bits, fmt.Sprintf("(bvxor %s %s)", a, b))
	case token.AND_NOT:
		return e.mk(bits, fmt.Sprintf("(bvand %s (bvnot %s))", a, b))
	case token.SHL:
		return e.mk(bits, fmt.Sprintf("(bvshl %s %s)", a, b))
	case token.SHR:
		return e.mk(bits, fmt.Sprintf("(%s %s %s)", pick("bvashr", "bvlshr"), a, b))
	case token.EQL:
		return e.mk(0, fmt.Sprintf("(= %s %s)", a, b))
	case token.NEQ:
		return e.mk(0, fmt.Sprintf("(not (= %s %s))", a, b))
	case token.LSS:
		return e.mk(0, fmt.Sprintf("(%s %s %s)", pick("bvslt", "bvult"), a, b))
	case token.LEQ:
		return e.mk(0, fmt.Sprintf("(%s %s %s)", pick("bvsle", "bvule"), a, b))
	case token.GTR:
		return e.mk(0, fmt.Sprintf("(%s %s %s)", pick("bvsgt", "bvugt"), a, b))
	case token.GEQ:
		return e.mk(0, fmt.Sprintf("(%s %s %s)", pick("bvsge", "bvuge"), a, b))
	}
	panic(infraError{"symBinop: op " + op.String()})
}

func (e *Engine) shiftCount(y value, bits int) string {
	if !isSym(y) {
		c := asUint64Any(y)
		if c >= uint64(bits) {
			c = uint64(bits) // bvshl by >= width gives 0, bvashr gives sign fill: matches Go
		}
		return bvconst(c, bits)
	}
	s := y.(sym)
	if s.bits == bits {
		return s.name
	}
	if s.bits < bits {
		return fmt.Sprintf("((_ zero_extend %d) %s)", bits-s.bits, s.name)
	}
	return fmt.Sprintf("(ite (bvuge %s %s) %s ((_ extract %d 0) %s))", s.name, bvconst(uint64(bits), s.bits), bvconst(uint64(bits), bits), bits-1, s.name)
}

func asUint64Any(v value) uint64 {
	switch v := v.(type) {
	case int:
		return uint64(v)
	case int8:
		return uint64(v)
	case int16:
		return uint64(v)
	case int32:
		return uint64(v)
	case int64:
		return uint64(v)
	case uint:
		return uint64(v)
	case uint8:
		return uint64(v)
	case uint16:
		return uint64(v)
	case uint32:
		return uint64(v)
	case uint64:
		return v
	case uintptr:
		return uint64(v)
	}
	panic(infraError{fmt.Sprintf("asUint64Any %T", v)})
}

func (e *Engine) rtPanic(msg string) {
	panic(targetPanic{iface{theInterp.runtimeErrorString, "runtime error: " + msg}})
}

func (e *Engine) checkDivZero(y value, bits int) {
	if s, ok := y.(sym); ok {
		z := e.mk(0, fmt.Sprintf("(= %s %s)", s.name, bvconst(0, bits)))
		if e.Branch(z) {
			e.rtPanic("integer divide by zero")
		}
	}
}

func (e *Engine) symUnop(op token.Token, t types.Type, x sym) value {
	switch op {
	case token.NOT:
		return e.mk(0, fmt.Sprintf("(not %s)", x.name))
	case token.SUB:
		return e.mk(x.bits, fmt.Sprintf("(bvneg %s)", x.name))
	case token.XOR:
		return e.mk(x.bits, fmt.Sprintf("(bvnot %s)", x.name))
	}
	panic(infraError{"symUnop " + op.String()})
}

func (e *Engine) symConv(tdst, tsrc types.Type, x sym) value {
	db, _, ok1 := basicInfo(tdst)
	sb, ssigned, ok2 := basicInfo(tsrc)
	if ok1 && ok2 && db == 0 && sb == 0 {
		return x
	}
	if !ok1 || !ok2 || db == 0 || sb == 0 {
		if b, ok := tdst.Underlying().(*types.Basic); ok && b.Info()&types.IsFloat != 0 {
			// int -> float of a symbolic integer: concretise by forking is impossible; only used for
			// metrics/log formatting (durations in seconds).  Return an opaque float.
			e.Stubs["conv symbolic int->float (opaque 0)"]++
			if b.Kind() == types.Float32 {
				return float32(0)
			}
			return float64(0)
		}
		if b, ok := tdst.Underlying().(*types.Basic); ok && b.Kind() == types.String {
			// string(rune) of symbolic rune: ASCII assumption
			return mkstr([]value{e.mk(8, fmt.Sprintf("((_ extract 7 0) %s)", x.name))})
		}
		panic(infraError{fmt.Sprintf("symConv: unsupported %s -> %s", tsrc, tdst)})
	}
	switch {
	case db == sb:
		return sym{x.name, db}
	case db < sb:
		return e.mk(db, fmt.Sprintf("((_ extract %d 0) %s)", db-1, x.name))
	default:
		ext := "zero_extend"
		if ssigned {
			ext = "sign_extend"
		}
		return e.mk(db, fmt.Sprintf("((_ %s %d) %s)", ext, db-sb, x.name))
	}
}

// Branch decides a symbolic condition: returns the direction taken on this path.
func (e *Engine) Branch(c sym) bool {
	neg := e.def("Bool", fmt.Sprintf("(not %s)", c.name))
	i := e.decide([]string{c.name, neg})
	return i == 0
}

func (e *Engine) checkBudget() {
	if !e.Deadline.IsZero() && time.Now().After(e.Deadline) {
		desc := ""
		for _, g := range e.gors {
			st := "runnable"
			if g.done {
				st = "done"
			} else if g.ready != nil {
				st = "blocked on " + g.what
			}
			top := ""
			stack := g.stack
			if g == e.cur {
				stack = callFns
			}
			if len(stack) > 0 {
				top = stack[len(stack)-1].String()
			}
			desc += fmt.Sprintf(" [g%d %s top=%s]", g.id, st, top)
		}
		panic(infraError{"budget: wall-clock deadline exceeded;" + desc})
	}
}

// decide picks one of the alternatives (each an assumption literal, or "" for unconstrained).
func (e *Engine) decide(alts []string) int {
	e.Decisions++
	if e.pos < len(e.trail) {
		d := e.trail[e.pos]
		if d.n != len(alts) {
			panic(infraError{fmt.Sprintf("nondeterministic re-execution: decision %d had %d alternatives, now %d", e.pos, d.n, len(alts))})
		}
		c := d.choice
		e.pos++
		if alts[c] != "" {
			e.pc = append(e.pc, alts[c])
		}
		return c
	}
	if e.Unwind > 0 && len(e.trail) > e.Unwind {
		panic(infraError{fmt.Sprintf("unwind: more than %d decisions on one path", e.Unwind)})
	}
	var feas []int
	for i, a := range alts {
		if a == "" {
			feas = append(feas, i)
			continue
		}
		r := e.z.check(append(append([]string{}, e.pc...), a))
		if r == "unknown" {
			e.UnknownFeas++
		}
		if r != "unsat" {
			feas = append(feas, i)
		}
	}
	if len(feas) == 0 {
		panic(pathAbort{"no feasible alternative"})
	}
	if len(feas) > 1 {
		e.Forks++
	}
	e.trail = append(e.trail, decision{choice: feas[0], pending: feas[1:], n: len(alts)})
	e.pos++
	if alts[feas[0]] != "" {
		e.pc = append(e.pc, alts[feas[0]])
	}
	return feas[0]
}

// envDecide is a decision taken by an engine-side stub (not by the harness API); alternative 0 is
// the behaviour a native run shows by default.
func (e *Engine) envDecide(n int) int {
	c := e.decide(make([]string, n))
	if c != 0 {
		e.envChoice = true
	}
	return c
}

func (e *Engine) Assume(c value) {
	switch c := c.(type) {
	case bool:
		if !c {
			panic(pathAbort{"assume false"})
		}
	case sym:
		e.pc = append(e.pc, c.name)
		if e.z.check(e.pc) == "unsat" {
			panic(pathAbort{"assume unsat"})
		}
	}
}

func (e *Engine) neg(c sym) string { return e.def("Bool", fmt.Sprintf("(not %s)", c.name)) }

func (e *Engine) boolTerm(v value) string {
	switch v := v.(type) {
	case bool:
		if v {
			return "true"
		}
		return "false"
	case sym:
		return v.name
	}
	panic(infraError{fmt.Sprintf("boolTerm %T", v)})
}

// Assert checks cond on the current path.  kf/inRegion implement DESIGN 4.2.
func (e *Engine) Assert(c value, label, kf string, inRegion value) {
	e.z.record = true
	defer func() { e.z.record = false }()
	e.Asserts++
	e.AssertLabels[label]++
	if b, ok := c.(bool); ok && b {
		e.Discharged++
		return
	}
	negc := "true"
	if s, ok := c.(sym); ok {
		negc = e.neg(s)
	}
	if kf == "" {
		q := append(append([]string{}, e.pc...), negc)
		switch e.z.check(q) {
		case "unsat":
			e.Discharged++
		case "sat":
			e.violation(label, "", false, "", q)
		default:
			panic(infraError{"assertion query unknown: " + label})
		}
		return
	}
	// outside the region: always a violation
	reg := e.boolTerm(inRegion)
	nreg := e.def("Bool", fmt.Sprintf("(not %s)", reg))
	regN := e.def("Bool", reg)
	ok1, ok2 := false, false
	q1 := append(append([]string{}, e.pc...), negc, nreg)
	switch e.z.check(q1) {
	case "unsat":
		ok1 = true
	case "sat":
		e.violation(label, "", false, "", q1)
	default:
		panic(infraError{"assertion query unknown: " + label})
	}
	q2 := append(append([]string{}, e.pc...), negc, regN)
	switch e.z.check(q2) {
	case "unsat":
		ok2 = true
	case "sat":
		e.violation(label, kf, true, "", q2)
	default:
		panic(infraError{"assertion query unknown: " + label})
	}
	if ok1 && ok2 {
		e.Discharged++
	}
}

func (e *Engine) trailChoices() []int {
	var tr []int
	for _, d := range e.trail[:e.pos] {
		tr = append(tr, d.choice)
	}
	return tr
}

// concretise fills the API log (and observations) with values from the solver's current model.
// The last check must have been sat.
func (e *Engine) concretiseAPI() []APIEvent {
	out := make([]APIEvent, len(e.api))
	// collect all term names
	var names []string
	seen := map[string]bool{}
	for _, ev := range e.api {
		for _, t := range ev.terms {
			if !seen[t] && !isLiteral(t) {
				seen[t] = true
				names = append(names, t)
			}
		}
	}
	vals := e.z.values(names)
	get := func(t string) uint64 {
		if isLiteral(t) {
			return parseLiteral(t)
		}
		return vals[t]
	}
	for i, ev := range e.api {
		o := ev
		switch ev.Kind {
		case "str", "bytes":
			b := make([]byte, len(ev.terms))
			for j, t := range ev.terms {
				b[j] = byte(get(t))
			}
			o.Val = strconv.Quote(string(b))
		case "choice":
			// literal
		default:
			if len(ev.terms) == 1 {
				o.Val = strconv.FormatUint(get(ev.terms[0]), 10)
			}
		}
		o.terms = nil
		out[i] = o
	}
	return out
}

func isLiteral(t string) bool {
	return t == "true" || t == "false" || strings.HasPrefix(t, "(_ bv")
}

func parseLiteral(t string) uint64 {
	if t == "true" {
		return 1
	}
	if t == "false" {
		return 0
	}
	f := strings.Fields(strings.TrimPrefix(t, "(_ bv"))
	v, _ := strconv.ParseUint(f[0], 10, 64)
	return v
}

func (e *Engine) violation(label, kf string, inRegion bool, panicMsg string, q []string) {
	for _, v := range e.Violations {
		if v.Label == label && v.KF == kf && v.InRegion == inRegion {
			return // keep first witness per (label, region)
		}
	}
	if e.z.check(q) != "sat" {
		panic(infraError{"violation witness query not sat: " + label})
	}
	v := Violation{Label: label, KF: kf, InRegion: inRegion, Panic: panicMsg, Trail: e.trailChoices(), API: e.concretiseAPI(), Entry: e.EntryName, EnvChoice: e.envChoice, SchedDep: e.pathNondet}
	if panicMsg != "" {
		v.Stack = stackStrings()
		if len(e.panicStack) > 0 {
			v.Stack = e.panicStack
		}
	}
	e.Violations = append(e.Violations, v)
}

// endPath records a sample of the completed path (model-concretised API values + observations).
func (e *Engine) endPath() {
	if len(e.Samples) >= e.SampleN || e.pathNondet && e.Params["SCHED"] != 1 {
		return
	}
	// spread samples: take path k if k is among the first few or hits a power-ish stride
	n := e.Paths
	if len(e.Samples) >= 8 && n%(1+n/8) != 0 {
		return
	}
	if len(e.pc) > 0 && e.z.check(e.pc) != "sat" {
		return
	}
	if len(e.pc) == 0 {
		e.z.check(nil)
	}
	s := PathSample{Trail: e.trailChoices(), API: e.concretiseAPI(), Reached: append([]string{}, e.reachedNow...)}
	for _, o := range e.observes {
		s.Observes = append(s.Observes, Observation{Name: o.Name, Val: e.concretiseValue(o.term)})
	}
	e.Samples = append(e.Samples, s)
}

// concretiseValue renders an observed value under the current model.
func (e *Engine) concretiseValue(v value) string {
	switch v := v.(type) {
	case sym:
		vals := e.z.values([]string{v.name})
		if v.bits == 0 {
			if vals[v.name] != 0 {
				return "true"
			}
			return "false"
		}
		return strconv.FormatUint(vals[v.name], 10)
	case symstr:
		var names []string
		for _, c := range v {
			if s, ok := c.(sym); ok {
				names = append(names, s.name)
			}
		}
		vals := e.z.values(names)
		b := make([]byte, len(v))
		for i, c := range v {
			if s, ok := c.(sym); ok {
				b[i] = byte(vals[s.name])
			} else {
				b[i] = c.(byte)
			}
		}
		return strconv.Quote(string(b))
	case string:
		return strconv.Quote(v)
	case bool:
		return strconv.FormatBool(v)
	case iface:
		return e.concretiseValue(v.v)
	case int, int8, int16, int32, int64:
		return strconv.FormatUint(asUint64Any(v), 10)
	case uint, uint8, uint16, uint32, uint64, uintptr:
		return strconv.FormatUint(asUint64Any(v), 10)
	}
	return toString(v)
}

// backtrack prepares the next path; false when exploration is complete.
func (e *Engine) backtrack() bool {
	for len(e.trail) > 0 {
		last := &e.trail[len(e.trail)-1]
		if len(last.pending) > 0 {
			last.choice = last.pending[0]
			last.pending = last.pending[1:]
			return true
		}
		e.trail = e.trail[:len(e.trail)-1]
	}
	return false
}

func (e *Engine) resetRun() {
	e.pos = 0
	e.pc = e.pc[:0]
	e.nfresh = 0
	e.freshNames = e.freshNames[:0]
	e.clock = nil
	e.jsonVals = nil
	e.events = nil
	e.api = e.api[:0]
	e.observes = e.observes[:0]
	e.reachedNow = e.reachedNow[:0]
	e.envChoice = false
	e.pathNondet = false
	e.hangKF, e.hangRegion = "", false
	e.desNow = 0
	e.desTimers = nil
	e.pending = nil
	e.panicStack = nil
	e.rwReaders = map[*value]int{}
	e.wgCount = map[*value]int{}
	e.onceDone = map[*value]bool{}
	e.pools = map[*value][]value{}
	e.syncMaps = map[*value]*omap{}
}

func (e *Engine) SolverStats() (queries, sat, unsat, unknown int, secs float64) {
	return e.z.queries, e.z.nsat, e.z.nunsat, e.z.nunknown, e.z.dur.Seconds()
}

// index concretises a possibly symbolic index by forking over 0..n-1 and out-of-range.
func (e *Engine) index(idx value, n int) int64 {
	s, ok := idx.(sym)
	if !ok {
		return asInt64(idx)
	}
	if n > 64 {
		panic(infraError{fmt.Sprintf("symbolic index into a sequence of length %d (needs a summary)", n)})
	}
	alts := make([]string, n+1)
	for i := 0; i < n; i++ {
		alts[i] = e.def("Bool", fmt.Sprintf("(= %s %s)", s.name, bvconst(uint64(i), s.bits)))
	}
	alts[n] = e.def("Bool", fmt.Sprintf("(bvuge %s %s)", s.name, bvconst(uint64(n), s.bits)))
	c := e.decide(alts)
	if c == n {
		e.rtPanic("index out of range")
	}
	return int64(c)
}

// concreteInt forces a (possibly symbolic) integer to a concrete value by forking over lo..hi.
func (e *Engine) concreteInt(v value, lo, hi int64, what string) int64 {
	s, ok := v.(sym)
	if !ok {
		return asInt64(v)
	}
	n := int(hi - lo + 1)
	if n > 64 {
		panic(infraError{"concreteInt range too large: " + what})
	}
	alts := make([]string, n+1)
	var rest []string
	for i := 0; i < n; i++ {
		alts[i] = e.def("Bool", fmt.Sprintf("(= %s %s)", s.name, bvconst(uint64(lo+int64(i)), s.bits)))
		rest = append(rest, fmt.Sprintf("(not %s)", alts[i]))
	}
	alts[n] = e.def("Bool", "(and "+strings.Join(rest, " ")+" true)")
	c := e.decide(alts)
	if c == n {
		panic(infraError{"symbolic value outside concretisation range: " + what})
	}
	return lo + int64(c)
}

func sortedKeys(m map[string]int) []string {
	var ks []string
	for k := range m {
		ks = append(ks, k)
	}
	sort.Strings(ks)
	return ks
}

var debug = os.Getenv("GOSYM_DEBUG") != ""
