package symx

// Insertion-ordered map used for every Go map in the target program.  Deterministic
// iteration order is required by the decision-trail re-execution (DESIGN 2.3); keys may be
// symbolic (strings with symbolic bytes, symbolic integers): lookups then fork on equality
// with each existing key.

import (
	"go/types"
)

type hashable interface {
	hash(t types.Type) int
	eq(t types.Type, x interface{}) bool
}

type omap struct {
	keyType types.Type
	keys    []value
	vals    []value
	idx     map[value]int // concrete basic keys only -> position
	nsym    int           // number of symbolic keys stored
	lazy    *lazyInfo     // lazily initialised JSON object (see jsonstub.go)
	absent  map[string]bool
}

func makeMap(kt types.Type, reserve int64) value {
	return &omap{keyType: kt, idx: map[value]int{}}
}

func basicKey(k value) bool {
	switch k.(type) {
	case bool, int, int8, int16, int32, int64, uint, uint8, uint16, uint32, uint64, uintptr, float32, float64, string:
		return true
	}
	return false
}

func symbolicKey(k value) bool {
	switch k := k.(type) {
	case sym, symstr:
		return true
	case structure:
		for _, f := range k {
			if symbolicKey(f) {
				return true
			}
		}
	case array:
		for _, f := range k {
			if symbolicKey(f) {
				return true
			}
		}
	case iface:
		return symbolicKey(k.v)
	}
	return false
}

// find returns the position of key k or -1.  May fork when symbolic keys are involved.
func (m *omap) find(k value) int {
	if m == nil {
		return -1
	}
	if basicKey(k) && m.nsym == 0 {
		if i, ok := m.idx[k]; ok {
			return i
		}
		return -1
	}
	for i, kk := range m.keys {
		if keyEquals(m.keyType, kk, k) {
			return i
		}
	}
	return -1
}

func keyEquals(t types.Type, a, b value) bool {
	if _, ok := t.Underlying().(*types.Interface); ok {
		ia, ib := a.(iface), b.(iface)
		if ia.t == nil || ib.t == nil {
			return ia.t == nil && ib.t == nil
		}
		if !types.Identical(ia.t, ib.t) {
			return false
		}
		return keyEquals(ia.t, ia.v, ib.v)
	}
	return equals(t, a, b)
}

func (m *omap) lookup(k value) (value, bool) {
	if i := m.find(k); i >= 0 {
		return m.vals[i], true
	}
	if m != nil && m.lazy != nil {
		if ks, ok := k.(string); ok {
			if m.absent[ks] {
				return nil, false
			}
			v, present := E.lazyDecide(m, ks)
			if !present {
				if m.absent == nil {
					m.absent = map[string]bool{}
				}
				m.absent[ks] = true
			}
			return v, present
		}
	}
	return nil, false
}

func (m *omap) insert(k, v value) {
	if i := m.find(k); i >= 0 {
		m.vals[i] = v
		return
	}
	m.keys = append(m.keys, k)
	m.vals = append(m.vals, v)
	if basicKey(k) {
		m.idx[k] = len(m.keys) - 1
	} else if symbolicKey(k) {
		m.nsym++
	}
}

func (m *omap) delete(k value) {
	i := m.find(k)
	if i < 0 {
		return
	}
	if symbolicKey(m.keys[i]) {
		m.nsym--
	}
	m.keys = append(m.keys[:i:i], m.keys[i+1:]...)
	m.vals = append(m.vals[:i:i], m.vals[i+1:]...)
	m.idx = map[value]int{}
	for j, kk := range m.keys {
		if basicKey(kk) {
			m.idx[kk] = j
		}
	}
}

func (m *omap) len() int {
	if m == nil {
		return 0
	}
	return len(m.keys)
}

func (m *omap) clear() {
	if m == nil {
		return
	}
	m.keys, m.vals, m.idx, m.nsym = nil, nil, map[value]int{}, 0
}

type omapIter struct {
	keys, vals []value
	i          int
}

func (it *omapIter) next() tuple {
	if it.i >= len(it.keys) {
		return []value{false, nil, nil}
	}
	k, v := it.keys[it.i], it.vals[it.i]
	it.i++
	return []value{true, k, v}
}
