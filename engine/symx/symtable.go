package symx

// Symbolic indexing into concrete tables and auto-tabulation of pure byte classifiers
// (DESIGN 3.3): instead of forking 256 ways, the lookup becomes one term.

import (
	"fmt"
	"go/token"
	"go/types"
	"strings"

	"golang.org/x/tools/go/ssa"
)

// symptr is the address of seq[idx] for a symbolic idx.
type symptr struct {
	seq []value
	idx sym
}

// tableTerm builds the value seq[idx] as a term; ok=false when elements are not uniform scalars.
func (e *Engine) tableTerm(seq []value, idx sym) (value, bool) {
	n := len(seq)
	if n == 0 {
		return nil, false
	}
	// in-range fork (out of range panics like Go)
	inRange := e.mk(0, fmt.Sprintf("(bvult %s %s)", idx.name, bvconst(uint64(n), idx.bits)))
	if !e.Branch(inRange) {
		e.rtPanic("index out of range")
	}
	allBool, allByte := true, true
	for _, v := range seq {
		if _, ok := v.(bool); !ok {
			allBool = false
		}
		if _, ok := v.(byte); !ok {
			allByte = false
		}
	}
	if allBool {
		bits := make([]bool, n)
		for i, v := range seq {
			bits[i] = v.(bool)
		}
		return e.bitTable(bits, idx), true
	}
	if allByte {
		// ite chain grouped by value
		groups := map[byte][]int{}
		var order []byte
		for i, v := range seq {
			b := v.(byte)
			if _, ok := groups[b]; !ok {
				order = append(order, b)
			}
			groups[b] = append(groups[b], i)
		}
		// default: the most frequent value
		def := order[0]
		for _, b := range order {
			if len(groups[b]) > len(groups[def]) {
				def = b
			}
		}
		term := bvconst(uint64(def), 8)
		for _, b := range order {
			if b == def {
				continue
			}
			var eqs []string
			for _, i := range groups[b] {
				eqs = append(eqs, fmt.Sprintf("(= %s %s)", idx.name, bvconst(uint64(i), idx.bits)))
			}
			cond := eqs[0]
			if len(eqs) > 1 {
				cond = "(or " + strings.Join(eqs, " ") + ")"
			}
			term = fmt.Sprintf("(ite %s %s %s)", cond, bvconst(uint64(b), 8), term)
		}
		return e.mk(8, term), true
	}
	return nil, false
}

// bitTable returns bits[idx] as a Bool term using one wide constant.
func (e *Engine) bitTable(bits []bool, idx sym) value {
	n := len(bits)
	all, none := true, true
	for _, b := range bits {
		if b {
			none = false
		} else {
			all = false
		}
	}
	if all {
		return true
	}
	if none {
		return false
	}
	// encode as a disjunction of index ranges over the smaller of the true-set / false-set
	ntrue := 0
	for _, b := range bits {
		if b {
			ntrue++
		}
	}
	want := ntrue*2 <= n
	var parts []string
	for i := 0; i < n; {
		if bits[i] != want {
			i++
			continue
		}
		j := i
		for j+1 < n && bits[j+1] == want {
			j++
		}
		if i == j {
			parts = append(parts, fmt.Sprintf("(= %s %s)", idx.name, bvconst(uint64(i), idx.bits)))
		} else {
			parts = append(parts, fmt.Sprintf("(and (bvuge %s %s) (bvule %s %s))", idx.name, bvconst(uint64(i), idx.bits), idx.name, bvconst(uint64(j), idx.bits)))
		}
		i = j + 1
	}
	t := parts[0]
	if len(parts) > 1 {
		t = "(or " + strings.Join(parts, " ") + ")"
	}
	if !want {
		// parts describe the false-set restricted to 0..n-1; idx < n is on the path condition
		t = "(not " + t + ")"
	}
	return e.mk(0, t)
}

// ---- auto-tabulation of pure byte -> bool functions

var tabulate = map[string]bool{
	"net/url.shouldEscape":                                  true,
	"net/url.ishex":                                         true,
	"net/textproto.validHeaderFieldByte":                    true,
	"net/http.validCookieValueByte":                         true,
	"golang.org/x/net/http/httpguts.IsTokenRune":            true,
	"vendor/golang.org/x/net/http/httpguts.IsTokenRune":     true,
	"net/http.isTokenRune":                                  true,
	"unicode.IsSpace":                                       true,
	"unicode.IsUpper":                                       true,
	"unicode.IsLower":                                       true,
	"unicode.IsLetter":                                      true,
	"unicode.IsDigit":                                       true,
	"net/http/internal/ascii.isASCIIUpper":                  false,
}

var tabKnown = map[*ssa.Function]bool{}

func isTabulated(fn *ssa.Function) bool {
	if v, ok := tabKnown[fn]; ok {
		return v
	}
	v := fn.Parent() == nil && tabulate[fn.String()]
	tabKnown[fn] = v
	return v
}

type tabKey struct {
	fn   *ssa.Function
	args string
}

var tabCache = map[tabKey][]bool{}

// tryTabulate: fn(args) where exactly one arg is a symbolic 8-bit (or 32-bit rune assumed < 256
// after an explicit ASCII fork) value and the result is bool: evaluate the real body for all 256
// values concretely and return a lookup term.
func tryTabulate(i *interpreter, caller *frame, fn *ssa.Function, args []value) (value, bool) {
	symPos := -1
	for k, a := range args {
		switch a.(type) {
		case sym:
			if symPos >= 0 {
				return nil, false
			}
			symPos = k
		case symstr, symf:
			return nil, false
		}
	}
	if symPos < 0 {
		return nil, false
	}
	res := fn.Signature.Results()
	if res.Len() != 1 {
		return nil, false
	}
	if b, ok := res.At(0).Type().Underlying().(*types.Basic); !ok || b.Kind() != types.Bool {
		return nil, false
	}
	s := args[symPos].(sym)
	idx := s
	if s.bits > 8 {
		// rune argument: handle values < 256 by table, others by ASCII-abort
		small := E.mk(0, fmt.Sprintf("(bvult %s %s)", s.name, bvconst(256, s.bits)))
		if !E.Branch(small) {
			panic(pathAbort{"non-Latin1 rune in tabulated classifier"})
		}
		idx = E.mk(8, fmt.Sprintf("((_ extract 7 0) %s)", s.name))
	}
	key := tabKey{fn, fmt.Sprint(symPos, args[:symPos], args[symPos+1:])}
	bits, ok := tabCache[key]
	if !ok {
		bits = make([]bool, 256)
		pt := fn.Signature.Params().At(symPos).Type()
		for v := 0; v < 256; v++ {
			cargs := append([]value{}, args...)
			cargs[symPos] = conv(pt, types.Typ[types.Int], v)
			savedPos, savedTrail := E.pos, len(E.trail)
			r := callSSA(i, caller, token.NoPos, fn, cargs, nil)
			if E.pos != savedPos || len(E.trail) != savedTrail {
				panic(infraError{"tabulated function took a decision: " + fn.String()})
			}
			bits[v] = r.(bool)
		}
		tabCache[key] = bits
	}
	E.Stubs["auto-tabulated "+fn.String()]++
	return E.bitTable(bits, idx), true
}
