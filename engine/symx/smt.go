package symx

import (
	"bufio"
	"fmt"
	"io"
	"os"
	"os/exec"
	"strconv"
	"strings"
	"time"
)

// solver is a long-lived SMT solver process driven with check-sat-assuming over named
// Boolean literals (DESIGN 2.7).
type solver struct {
	kind     string
	cmd      *exec.Cmd
	in       io.WriteCloser
	out      *bufio.Reader
	queries  int
	nsat     int
	nunsat   int
	nunknown int
	dur      time.Duration
	logf     *os.File
	script   []string   // every declaration/definition sent (for the second solver)
	finalQ   []recordedQ // assertion queries with the verdict of this solver
	feasQ    []recordedQ // reservoir sample of the other (feasibility) queries
	nfeas    uint64
	lcg      uint64
	record   bool
}

type recordedQ struct {
	assumps []string
	result  string
}

func solverArgv(kind string) []string {
	switch kind {
	case "cvc5int":
		return []string{"cvc5", "--incremental", "--lang=smt2", "--solve-bv-as-int=sum", "--produce-models"}
	case "cvc5":
		return []string{"cvc5", "--incremental", "--lang=smt2", "--produce-models"}
	case "z3new":
		return []string{"z3-new", "-in"}
	default:
		return []string{"z3", "-in"}
	}
}

func newSolver(kind string) *solver {
	argv := solverArgv(kind)
	cmd := exec.Command(argv[0], argv[1:]...)
	in, _ := cmd.StdinPipe()
	outp, _ := cmd.StdoutPipe()
	cmd.Stderr = cmd.Stdout
	if err := cmd.Start(); err != nil {
		panic(infraError{"cannot start solver: " + err.Error()})
	}
	s := &solver{kind: kind, cmd: cmd, in: in, out: bufio.NewReaderSize(outp, 1<<16)}
	if p := os.Getenv("GOSYM_SMTLOG"); p != "" {
		s.logf, _ = os.Create(p)
	}
	s.send("(set-option :produce-models true)")
	s.send("(set-logic ALL)")
	return s
}

func (s *solver) send(line string) {
	if strings.HasPrefix(line, "(declare-") || strings.HasPrefix(line, "(define-") {
		s.script = append(s.script, line)
	}
	if s.logf != nil {
		s.logf.WriteString(line + "\n")
	}
	io.WriteString(s.in, line+"\n")
}

func (s *solver) readLine() string {
	l, err := s.out.ReadString('\n')
	if err != nil {
		panic(infraError{"solver died: " + err.Error()})
	}
	return strings.TrimSpace(l)
}

// check returns "sat", "unsat" or "unknown".
func (s *solver) check(assumps []string) string {
	t0 := time.Now()
	s.queries++
	if len(assumps) == 0 {
		s.send("(check-sat)")
	} else {
		s.send("(check-sat-assuming (" + strings.Join(assumps, " ") + "))")
	}
	r := s.readLine()
	s.dur += time.Since(t0)
	if s.record {
		if len(s.finalQ) < 4000 {
			s.finalQ = append(s.finalQ, recordedQ{append([]string{}, assumps...), r})
		}
	} else if r == "sat" || r == "unsat" {
		// reservoir of 1000 feasibility queries (deterministic generator)
		s.nfeas++
		if len(s.feasQ) < 1000 {
			s.feasQ = append(s.feasQ, recordedQ{append([]string{}, assumps...), r})
		} else {
			s.lcg = s.lcg*6364136223846793005 + 1442695040888963407
			if j := (s.lcg >> 33) % s.nfeas; j < 1000 {
				s.feasQ[j] = recordedQ{append([]string{}, assumps...), r}
			}
		}
	}
	switch r {
	case "sat":
		s.nsat++
	case "unsat":
		s.nunsat++
	default:
		if strings.HasPrefix(r, "(error") {
			panic(infraError{"solver error: " + r})
		}
		s.nunknown++
		return "unknown"
	}
	return r
}

// values returns the model value of each named constant (bit-vectors and Booleans) as uint64.
func (s *solver) values(names []string) map[string]uint64 {
	out := map[string]uint64{}
	const chunk = 64
	for i := 0; i < len(names); i += chunk {
		j := i + chunk
		if j > len(names) {
			j = len(names)
		}
		s.send("(get-value (" + strings.Join(names[i:j], " ") + "))")
		depth := 0
		var sb strings.Builder
		for {
			l := s.readLine()
			if strings.HasPrefix(l, "(error") {
				panic(infraError{"solver error in get-value: " + l})
			}
			sb.WriteString(l)
			sb.WriteByte(' ')
			depth += strings.Count(l, "(") - strings.Count(l, ")")
			if depth <= 0 {
				break
			}
		}
		parseValues(sb.String(), out)
	}
	return out
}

// parseValues parses "((a #x0f) (b (_ bv5 64)) (c true))".
func parseValues(s string, out map[string]uint64) {
	toks := tokenize(s)
	// toks: ( ( name val... ) ( name val ) )
	i := 0
	if i < len(toks) && toks[i] == "(" {
		i++
	}
	for i < len(toks) && toks[i] == "(" {
		i++
		name := toks[i]
		i++
		var v uint64
		if toks[i] == "(" { // (_ bvN W)
			// find bvN
			for toks[i] != ")" {
				if strings.HasPrefix(toks[i], "bv") {
					v, _ = strconv.ParseUint(toks[i][2:], 10, 64)
				}
				i++
			}
			i++
		} else {
			t := toks[i]
			i++
			switch {
			case t == "true":
				v = 1
			case t == "false":
				v = 0
			case strings.HasPrefix(t, "#x"):
				v, _ = strconv.ParseUint(t[2:], 16, 64)
			case strings.HasPrefix(t, "#b"):
				v, _ = strconv.ParseUint(t[2:], 2, 64)
			}
		}
		out[name] = v
		if i < len(toks) && toks[i] == ")" {
			i++
		}
	}
}

func tokenize(s string) []string {
	var toks []string
	cur := strings.Builder{}
	flush := func() {
		if cur.Len() > 0 {
			toks = append(toks, cur.String())
			cur.Reset()
		}
	}
	for _, c := range s {
		switch c {
		case '(', ')':
			flush()
			toks = append(toks, string(c))
		case ' ', '\t', '\n':
			flush()
		default:
			cur.WriteRune(c)
		}
	}
	flush()
	return toks
}

func (s *solver) close() {
	s.send("(exit)")
	s.in.Close()
	s.cmd.Wait()
	if s.logf != nil {
		s.logf.Close()
	}
}


// SecondOpinion re-decides a sample of the recorded assertion queries with another solver.
// It returns (checked, agreed, noOpinion, disagreements).
func (s *solver) secondOpinion(kind string, max int, seed int, perQuery, total time.Duration) (checked, agreed, noOpinion int, disagree []string) {
	// half of the budget goes to assertion queries, the rest to sampled feasibility queries
	all := s.finalQ
	if len(all) > max/2 {
		step := len(all) / (max / 2)
		var pick []recordedQ
		for i := seed % step; i < len(all) && len(pick) < max/2; i += step {
			pick = append(pick, all[i])
		}
		all = pick
	}
	if rest := max - len(all); rest > 0 && len(s.feasQ) > 0 {
		step := 1
		if len(s.feasQ) > rest {
			step = len(s.feasQ) / rest
		}
		for i := seed % step; i < len(s.feasQ) && rest > 0; i += step {
			all = append(all, s.feasQ[i])
			rest--
		}
	}
	if len(all) == 0 {
		return
	}
	defer func() {
		if p := recover(); p != nil {
			disagree = append(disagree, fmt.Sprint("second solver failed: ", p))
		}
	}()
	o := newSolver(kind)
	defer o.close()
	for _, l := range s.script {
		o.send(l)
	}
	deadline := time.Now().Add(total)
	for i, q := range all {
		if time.Now().After(deadline) {
			noOpinion += len(all) - i
			checked += len(all) - i
			return
		}
		if q.result != "sat" && q.result != "unsat" {
			continue
		}
		checked++
		done := make(chan string, 1)
		go func() {
			defer func() {
				if p := recover(); p != nil {
					done <- "error"
				}
			}()
			done <- o.check(q.assumps)
		}()
		select {
		case r := <-done:
			switch {
			case r == q.result:
				agreed++
			case r == "unknown" || r == "error":
				noOpinion++
			default:
				disagree = append(disagree, fmt.Sprintf("query %d: %s says %s, %s says %s", i, s.kind, q.result, kind, r))
			}
		case <-time.After(perQuery):
			noOpinion++
			o.cmd.Process.Kill()
			return
		}
	}
	return
}
