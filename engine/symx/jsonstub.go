package symx

// The JSON boundary (DESIGN 3.2): encoding/json is reflection + unsafe and is not encoded.
// Marshal returns an opaque token that maps back to the Go value; Unmarshal of a token hands the
// code that value (a harness-constructed value tree).  Anything that is not a token is malformed
// JSON.  What is checked is olla's logic after decoding and before encoding.

import (
	"fmt"
	"go/token"
	"go/types"
	"strconv"
	"strings"

	"golang.org/x/tools/go/ssa"
)

const jsonTokPre, jsonTokSuf = "@@J", "@@"

func (e *Engine) jsonToken(v value) string {
	e.jsonVals = append(e.jsonVals, v)
	return jsonTokPre + strconv.Itoa(len(e.jsonVals)-1) + jsonTokSuf
}

// jsonLookup finds a token in concrete text.
func (e *Engine) jsonLookup(text value) (value, bool) {
	var s string
	switch t := text.(type) {
	case string:
		s = t
	case []value:
		b := make([]byte, 0, len(t))
		for _, c := range t {
			cb, ok := c.(byte)
			if !ok {
				return nil, false
			}
			b = append(b, cb)
		}
		s = string(b)
	case symstr:
		return nil, false
	default:
		return nil, false
	}
	s = strings.TrimSpace(s)
	if !strings.HasPrefix(s, jsonTokPre) || !strings.HasSuffix(s, jsonTokSuf) {
		return nil, false
	}
	k, err := strconv.Atoi(s[len(jsonTokPre) : len(s)-len(jsonTokSuf)])
	if err != nil || k < 0 || k >= len(e.jsonVals) {
		return nil, false
	}
	return e.jsonVals[k], true
}

func jsonSyntaxError(fr *frame) iface {
	return iface{fr.i.runtimeErrorString, "invalid character in JSON input (gosym JSON boundary: not a value token)"}
}

// jsonAssign stores decoded value v into the variable target points to.
func jsonAssign(fr *frame, target iface, v value) iface {
	p, ok := target.v.(*value)
	if !ok || p == nil {
		return iface{fr.i.runtimeErrorString, "json: Unmarshal(non-pointer)"}
	}
	T := target.t.Underlying().(*types.Pointer).Elem()
	iv, isIface := v.(iface)
	if _, ok := T.Underlying().(*types.Interface); ok {
		if !isIface {
			panic(infraError{"JSON boundary: untyped value for interface target"})
		}
		*p = iv
		return iface{}
	}
	if isIface {
		if iv.t == nil {
			// JSON null: leaves most targets untouched
			return iface{}
		}
		if !types.AssignableTo(iv.t, T) && !types.Identical(iv.t.Underlying(), T.Underlying()) {
			// e.g. a string where an object is expected
			return iface{fr.i.runtimeErrorString, fmt.Sprintf("json: cannot unmarshal %s into Go value of type %s", iv.t, T)}
		}
		v = iv.v
	}
	*p = copyDecoded(v)
	return iface{}
}

// copyDecoded makes the decoded tree private to the decoder's caller (maps and slices are fresh).
func copyDecoded(v value) value {
	switch v := v.(type) {
	case *omap:
		if v == nil {
			return v
		}
		m := &omap{keyType: v.keyType, idx: map[value]int{}}
		for i := range v.keys {
			m.insert(v.keys[i], copyDecoded(v.vals[i]))
		}
		return m
	case []value:
		if v == nil {
			return v
		}
		out := make([]value, len(v))
		for i := range v {
			out[i] = copyDecoded(v[i])
		}
		return out
	case structure:
		out := make(structure, len(v))
		for i := range v {
			out[i] = copyDecoded(v[i])
		}
		return out
	case array:
		out := make(array, len(v))
		for i := range v {
			out[i] = copyDecoded(v[i])
		}
		return out
	case iface:
		return iface{v.t, copyDecoded(v.v)}
	case *value:
		if v == nil {
			return v
		}
		c := copyDecoded(*v)
		return &c
	}
	return v
}

func init() {
	ex := externals
	g := func(name string, f externalFn) { ex[gosymPkg+name] = f }
	g("JSONBytes", func(fr *frame, a []value) value {
		return strElemsBytes(E.jsonToken(a[0]))
	})
	g("JSONLine", func(fr *frame, a []value) value {
		return mkstr(append(append([]value{}, strElems(a[0])...), strElems(E.jsonToken(a[1]))...))
	})
	g("DecodeJSON", func(fr *frame, a []value) value {
		v, ok := E.jsonLookup(a[0])
		if !ok {
			return tuple{iface{}, false}
		}
		if iv, isI := v.(iface); isI {
			return tuple{iv, true}
		}
		panic(infraError{"DecodeJSON: stored value is not an interface value"})
	})
	marshal := func(fr *frame, a []value) value {
		return tuple{strElemsBytes(E.jsonToken(a[0])), iface{}}
	}
	ex["encoding/json.Marshal"] = marshal
	ex["encoding/json.MarshalIndent"] = marshal
	ex["encoding/json.Valid"] = func(fr *frame, a []value) value { _, ok := E.jsonLookup(a[0]); return ok }
	ex["encoding/json.Unmarshal"] = func(fr *frame, a []value) value {
		v, ok := E.jsonLookup(a[0])
		if !ok {
			return jsonSyntaxError(fr)
		}
		return jsonAssign(fr, a[1].(iface), v)
	}
	// json.NewDecoder(r).Decode(&x): read everything from r, then as Unmarshal
	ex["encoding/json.NewDecoder"] = func(fr *frame, a []value) value {
		var cell value = structure{a[0]} // remember the reader
		return &cell
	}
	ex["(*encoding/json.Decoder).DisallowUnknownFields"] = func(fr *frame, a []value) value { return nil }
	ex["(*encoding/json.Decoder).UseNumber"] = func(fr *frame, a []value) value { return nil }
	ex["(*encoding/json.Decoder).Decode"] = func(fr *frame, a []value) value {
		rd := (*(a[0].(*value))).(structure)[0]
		ioPkg := fr.i.prog.ImportedPackage("io")
		r := call(fr.i, fr, token.NoPos, ioPkg.Func("ReadAll"), []value{rd}).(tuple)
		if e, ok := r[1].(iface); ok && e.t != nil {
			return e
		}
		v, ok := E.jsonLookup(r[0])
		if !ok {
			return jsonSyntaxError(fr)
		}
		return jsonAssign(fr, a[1].(iface), v)
	}
	ex["encoding/json.NewEncoder"] = func(fr *frame, a []value) value {
		var cell value = structure{a[0]}
		return &cell
	}
	ex["(*encoding/json.Encoder).SetIndent"] = func(fr *frame, a []value) value { return nil }
	ex["(*encoding/json.Encoder).SetEscapeHTML"] = func(fr *frame, a []value) value { return nil }
	ex["(*encoding/json.Encoder).Encode"] = func(fr *frame, a []value) value {
		w := (*(a[0].(*value))).(structure)[0].(iface)
		tok := strElemsBytes(E.jsonToken(a[1]) + "\n")
		m := findMethodByName(w.t, "Write")
		if m == nil {
			panic(infraError{"json.Encoder over a writer without Write"})
		}
		r := call(fr.i, fr, token.NoPos, m, []value{w.v, tok}).(tuple)
		return r[1]
	}
	// fmt.Fprintf / Fprint / Fprintln on any io.Writer: format, then Write
	fprint := func(fr *frame, w iface, text value) value {
		m := findMethodByName(w.t, "Write")
		if m == nil {
			panic(infraError{"fmt.Fprint* over a writer without Write"})
		}
		b := append([]value{}, strElems(text)...)
		return call(fr.i, fr, token.NoPos, m, []value{w.v, b})
	}
	ex["fmt.Fprintf"] = func(fr *frame, a []value) value {
		args, _ := a[2].([]value)
		msg, _ := formatArgs(fr, concreteString(a[1]), args)
		return fprint(fr, a[0].(iface), msg)
	}
	ex["fmt.Fprint"] = func(fr *frame, a []value) value {
		return fprint(fr, a[0].(iface), ex["fmt.Sprint"](fr, a[1:]))
	}
	ex["fmt.Fprintln"] = func(fr *frame, a []value) value {
		return fprint(fr, a[0].(iface), ex["fmt.Sprintln"](fr, a[1:]))
	}
}

func strElemsBytes(s string) []value {
	out := make([]value, len(s))
	for i := 0; i < len(s); i++ {
		out[i] = s[i]
	}
	return out
}

var _ = ssa.NewProgram
