package symx

// The JSON boundary (DESIGN 3.2): encoding/json is reflection + unsafe and is not encoded.
// Marshal returns an opaque token that maps back to the Go value; Unmarshal of a token hands the
// code that value (a harness-constructed value tree).  Anything that is not a token is malformed
// JSON.  What is checked is olla's logic after decoding and before encoding.

import (
	"fmt"
	"go/token"
	"go/types"
	"strconv"
	"strings"

	"golang.org/x/tools/go/ssa"
)

const jsonTokPre, jsonTokSuf = "@@J", "@@"

func (e *Engine) jsonToken(v value) string {
	e.jsonVals = append(e.jsonVals, v)
	return jsonTokPre + strconv.Itoa(len(e.jsonVals)-1) + jsonTokSuf
}

// jsonLookup finds a token in concrete text.
func (e *Engine) jsonLookup(text value) (value, bool) {
	var s string
	switch t := text.(type) {
	case string:
		s = t
	case []value:
		b := make([]byte, 0, len(t))
		for _, c := range t {
			cb, ok := c.(byte)
			if !ok {
				return nil, false
			}
			b = append(b, cb)
		}
		s = string(b)
	case symstr:
		return nil, false
	default:
		return nil, false
	}
	s = strings.TrimSpace(s)
	if !strings.HasPrefix(s, jsonTokPre) || !strings.HasSuffix(s, jsonTokSuf) {
		return nil, false
	}
	k, err := strconv.Atoi(s[len(jsonTokPre) : len(s)-len(jsonTokSuf)])
	if err != nil || k < 0 || k >= len(e.jsonVals) {
		return nil, false
	}
	return e.jsonVals[k], true
}

func jsonSyntaxError(fr *frame) iface {
	return iface{fr.i.runtimeErrorString, "invalid character in JSON input (gosym JSON boundary: not a value token)"}
}

// jsonAssign stores decoded value v into the variable target points to.
func jsonAssign(fr *frame, target iface, v value) iface {
	p, ok := target.v.(*value)
	if !ok || p == nil {
		return iface{fr.i.runtimeErrorString, "json: Unmarshal(non-pointer)"}
	}
	T := target.t.Underlying().(*types.Pointer).Elem()
	iv, isIface := v.(iface)
	if _, ok := T.Underlying().(*types.Interface); ok {
		if !isIface {
			panic(infraError{"JSON boundary: untyped value for interface target"})
		}
		*p = iv
		return iface{}
	}
	if isIface {
		if iv.t == nil {
			// JSON null: leaves most targets untouched
			return iface{}
		}
		if !types.AssignableTo(iv.t, T) && !types.Identical(iv.t.Underlying(), T.Underlying()) {
			// e.g. a string where an object is expected
			return iface{fr.i.runtimeErrorString, fmt.Sprintf("json: cannot unmarshal %s into Go value of type %s", iv.t, T)}
		}
		v = iv.v
	}
	// encoding/json reuses a non-nil map target and keeps its existing entries
	if _, isMap := T.Underlying().(*types.Map); isMap {
		if old, ok := (*p).(*omap); ok && old != nil && old.lazy == nil {
			if nv, ok := v.(*omap); ok && nv != nil && nv.lazy == nil {
				for i := range nv.keys {
					old.insert(nv.keys[i], copyDecoded(nv.vals[i]))
				}
				return iface{}
			}
		}
	}
	*p = copyDecoded(v)
	return iface{}
}

// copyDecoded makes the decoded tree private to the decoder's caller (maps and slices are fresh).
func copyDecoded(v value) value {
	switch v := v.(type) {
	case *omap:
		if v == nil || v.lazy != nil {
			return v // a lazy object is shared: its content is decided where it is looked at
		}
		m := &omap{keyType: v.keyType, idx: map[value]int{}}
		for i := range v.keys {
			m.insert(v.keys[i], copyDecoded(v.vals[i]))
		}
		return m
	case []value:
		if v == nil {
			return v
		}
		out := make([]value, len(v))
		for i := range v {
			out[i] = copyDecoded(v[i])
		}
		return out
	case structure:
		out := make(structure, len(v))
		for i := range v {
			out[i] = copyDecoded(v[i])
		}
		return out
	case array:
		out := make(array, len(v))
		for i := range v {
			out[i] = copyDecoded(v[i])
		}
		return out
	case iface:
		return iface{v.t, copyDecoded(v.v)}
	case *value:
		if v == nil {
			return v
		}
		c := copyDecoded(*v)
		return &c
	}
	return v
}

func init() {
	ex := externals
	g := func(name string, f externalFn) { ex[gosymPkg+name] = f }
	g("JSONBytes", func(fr *frame, a []value) value {
		return strElemsBytes(E.jsonToken(a[0]))
	})
	g("JSONLine", func(fr *frame, a []value) value {
		return mkstr(append(append([]value{}, strElems(a[0])...), strElems(E.jsonToken(a[1]))...))
	})
	g("DecodeJSON", func(fr *frame, a []value) value {
		v, ok := E.jsonLookup(a[0])
		if !ok {
			return tuple{iface{}, false}
		}
		if iv, isI := v.(iface); isI {
			return tuple{toGeneric(iv.t, iv.v), true}
		}
		panic(infraError{"DecodeJSON: stored value is not an interface value"})
	})
	marshal := func(fr *frame, a []value) value {
		return tuple{strElemsBytes(E.jsonToken(a[0])), iface{}}
	}
	ex["encoding/json.Marshal"] = marshal
	ex["encoding/json.MarshalIndent"] = marshal
	ex["encoding/json.Valid"] = func(fr *frame, a []value) value { _, ok := E.jsonLookup(a[0]); return ok }
	ex["encoding/json.Unmarshal"] = func(fr *frame, a []value) value {
		v, ok := E.jsonLookup(a[0])
		if !ok {
			return jsonSyntaxError(fr)
		}
		return jsonAssign(fr, a[1].(iface), v)
	}
	// json.NewDecoder(r).Decode(&x): read everything from r, then as Unmarshal
	ex["encoding/json.NewDecoder"] = func(fr *frame, a []value) value {
		var cell value = structure{a[0]} // remember the reader
		return &cell
	}
	ex["(*encoding/json.Decoder).DisallowUnknownFields"] = func(fr *frame, a []value) value { return nil }
	ex["(*encoding/json.Decoder).UseNumber"] = func(fr *frame, a []value) value { return nil }
	ex["(*encoding/json.Decoder).Decode"] = func(fr *frame, a []value) value {
		rd := (*(a[0].(*value))).(structure)[0]
		ioPkg := fr.i.prog.ImportedPackage("io")
		r := call(fr.i, fr, token.NoPos, ioPkg.Func("ReadAll"), []value{rd}).(tuple)
		if e, ok := r[1].(iface); ok && e.t != nil {
			return e
		}
		v, ok := E.jsonLookup(r[0])
		if !ok {
			return jsonSyntaxError(fr)
		}
		return jsonAssign(fr, a[1].(iface), v)
	}
	ex["encoding/json.NewEncoder"] = func(fr *frame, a []value) value {
		var cell value = structure{a[0]}
		return &cell
	}
	ex["(*encoding/json.Encoder).SetIndent"] = func(fr *frame, a []value) value { return nil }
	ex["(*encoding/json.Encoder).SetEscapeHTML"] = func(fr *frame, a []value) value { return nil }
	ex["(*encoding/json.Encoder).Encode"] = func(fr *frame, a []value) value {
		w := (*(a[0].(*value))).(structure)[0].(iface)
		tok := strElemsBytes(E.jsonToken(a[1]) + "\n")
		m := findMethodByName(w.t, "Write")
		if m == nil {
			panic(infraError{"json.Encoder over a writer without Write"})
		}
		r := call(fr.i, fr, token.NoPos, m, []value{w.v, tok}).(tuple)
		return r[1]
	}
	// fmt.Fprintf / Fprint / Fprintln on any io.Writer: format, then Write
	fprint := func(fr *frame, w iface, text value) value {
		m := findMethodByName(w.t, "Write")
		if m == nil {
			panic(infraError{"fmt.Fprint* over a writer without Write"})
		}
		b := append([]value{}, strElems(text)...)
		return call(fr.i, fr, token.NoPos, m, []value{w.v, b})
	}
	ex["fmt.Fprintf"] = func(fr *frame, a []value) value {
		args, _ := a[2].([]value)
		msg, _ := formatArgs(fr, concreteString(a[1]), args)
		return fprint(fr, a[0].(iface), msg)
	}
	ex["fmt.Fprint"] = func(fr *frame, a []value) value {
		return fprint(fr, a[0].(iface), ex["fmt.Sprint"](fr, a[1:]))
	}
	ex["fmt.Fprintln"] = func(fr *frame, a []value) value {
		return fprint(fr, a[0].(iface), ex["fmt.Sprintln"](fr, a[1:]))
	}
}

func strElemsBytes(s string) []value {
	out := make([]value, len(s))
	for i := 0; i < len(s); i++ {
		out[i] = s[i]
	}
	return out
}

var _ = ssa.NewProgram

// gjson.GetBytes(json, "key") for top-level keys of a token body (gjson is unsafe-based).
func init() {
	ex := externals
	ex["github.com/tidwall/gjson.GetBytes"] = func(fr *frame, a []value) value { return gjsonGet(fr, a[0], a[1]) }
	ex["github.com/tidwall/gjson.Get"] = func(fr *frame, a []value) value { return gjsonGet(fr, a[0], a[1]) }
	ex["github.com/tidwall/gjson.ValidBytes"] = func(fr *frame, a []value) value { _, ok := E.jsonLookup(a[0]); return ok }
	ex["github.com/tidwall/gjson.Valid"] = func(fr *frame, a []value) value { _, ok := E.jsonLookup(a[0]); return ok }
}

// gjson.Result{Type, Raw, Str, Num, Index, Indexes}; Type: Null=0 False=1 Number=2 String=3 True=4 JSON=5
func gjsonResult(typ int, raw, str value, num float64) value {
	return structure{typ, raw, str, num, 0, []value(nil)}
}

func gjsonGet(fr *frame, body, path value) value {
	E.Stubs["gjson.Get on a JSON-boundary token (top-level key lookup)"]++
	none := gjsonResult(0, "", "", 0)
	v, ok := E.jsonLookup(body)
	if !ok {
		return none
	}
	key := concreteString(path)
	if strings.ContainsAny(key, ".#*?|@") {
		panic(infraError{"gjson path beyond a top-level key is not modelled: " + key})
	}
	iv, isI := v.(iface)
	if !isI || iv.t == nil {
		return none
	}
	var field value
	found := false
	switch u := iv.t.Underlying().(type) {
	case *types.Map:
		if m, ok := iv.v.(*omap); ok && m != nil {
			field, found = m.lookup(key)
		}
	case *types.Struct:
		s := iv.v.(structure)
		for i := 0; i < u.NumFields(); i++ {
			tag := reflectTagJSON(u.Tag(i))
			name := strings.Split(tag, ",")[0]
			if name == "" {
				name = u.Field(i).Name()
			}
			if name == key {
				field, found = s[i], true
				if strings.Contains(tag, "omitempty") && isZeroValue(field) {
					found = false
				}
			}
		}
	case *types.Pointer:
		panic(infraError{"gjson over pointer token value"})
	}
	if !found {
		return none
	}
	if f, ok := field.(iface); ok {
		field = f.v
		if f.t == nil {
			return gjsonResult(0, "null", "", 0)
		}
	}
	switch x := field.(type) {
	case string, symstr:
		return gjsonResult(3, "\"…\"", x, 0)
	case bool:
		if x {
			return gjsonResult(4, "true", "", 0)
		}
		return gjsonResult(1, "false", "", 0)
	case int:
		return gjsonResult(2, strconv.Itoa(x), "", float64(x))
	case float64:
		return gjsonResult(2, strconv.FormatFloat(x, 'g', -1, 64), "", x)
	case sym:
		E.Stubs["gjson number from symbolic int (Num opaque 0)"]++
		return gjsonResult(2, "<n>", "", 0)
	}
	return gjsonResult(5, "{…}", "", 0)
}

func reflectTagJSON(tag string) string {
	// minimal struct tag lookup for key "json"
	for tag != "" {
		i := 0
		for i < len(tag) && tag[i] == ' ' {
			i++
		}
		tag = tag[i:]
		if tag == "" {
			break
		}
		i = 0
		for i < len(tag) && tag[i] != ':' {
			i++
		}
		if i+1 >= len(tag) || tag[i+1] != '"' {
			break
		}
		name := tag[:i]
		tag = tag[i+1:]
		j := 1
		for j < len(tag) && tag[j] != '"' {
			if tag[j] == '\\' {
				j++
			}
			j++
		}
		if j >= len(tag) {
			break
		}
		val, _ := strconv.Unquote(tag[:j+1])
		tag = tag[j+1:]
		if name == "json" {
			return val
		}
	}
	return ""
}

func isZeroValue(v value) bool {
	switch x := v.(type) {
	case string:
		return x == ""
	case symstr:
		return len(x) == 0
	case bool:
		return !x
	case int:
		return x == 0
	case float64:
		return x == 0
	case iface:
		return x.t == nil
	case []value:
		return len(x) == 0
	case *omap:
		return x.len() == 0
	case *value:
		return x == nil
	}
	return false
}

// ---- generic form: what encoding/json would yield when decoding the marshalled value into
// interface{} (objects -> map[string]interface{}, arrays -> []interface{}, numbers -> float64).

var (
	tEmptyIface = types.NewInterfaceType(nil, nil).Complete()
	tGenMap     = types.NewMap(types.Typ[types.String], tEmptyIface)
	tGenSlice   = types.NewSlice(tEmptyIface)
)

func toGeneric(t types.Type, v value) iface {
	if t == nil {
		return iface{}
	}
	switch u := t.Underlying().(type) {
	case *types.Interface:
		iv, _ := v.(iface)
		if iv.t == nil {
			return iface{}
		}
		return toGeneric(iv.t, iv.v)
	case *types.Pointer:
		p, _ := v.(*value)
		if p == nil {
			return iface{}
		}
		return toGeneric(u.Elem(), *p)
	case *types.Struct:
		s := v.(structure)
		m := &omap{keyType: types.Typ[types.String], idx: map[value]int{}}
		for i := 0; i < u.NumFields(); i++ {
			if !u.Field(i).Exported() {
				continue
			}
			tag := reflectTagJSON(u.Tag(i))
			parts := strings.Split(tag, ",")
			name := parts[0]
			if name == "-" {
				continue
			}
			if name == "" {
				name = u.Field(i).Name()
			}
			if strings.Contains(tag, "omitempty") && isZeroValue(s[i]) {
				continue
			}
			m.insert(name, toGeneric(u.Field(i).Type(), s[i]))
		}
		return iface{tGenMap, m}
	case *types.Map:
		src, _ := v.(*omap)
		if src == nil {
			return iface{}
		}
		m := &omap{keyType: types.Typ[types.String], idx: map[value]int{}}
		for i := range src.keys {
			m.insert(src.keys[i], toGeneric(u.Elem(), src.vals[i]))
		}
		return iface{tGenMap, m}
	case *types.Slice:
		src, _ := v.([]value)
		if src == nil {
			return iface{}
		}
		if b, ok := u.Elem().Underlying().(*types.Basic); ok && b.Kind() == types.Byte {
			panic(infraError{"[]byte in a JSON value (base64) is not modelled"})
		}
		out := make([]value, len(src))
		for i := range src {
			out[i] = toGeneric(u.Elem(), src[i])
		}
		return iface{tGenSlice, out}
	case *types.Basic:
		switch {
		case u.Info()&types.IsString != 0:
			return iface{types.Typ[types.String], v}
		case u.Info()&types.IsBoolean != 0:
			return iface{types.Typ[types.Bool], v}
		case u.Info()&types.IsInteger != 0:
			if s, ok := v.(sym); ok {
				// keep symbolic integers as integers: harness helpers accept int or float64
				return iface{types.Typ[types.Int], E.symConv(types.Typ[types.Int], t, s)}
			}
			return iface{types.Typ[types.Float64], float64(asInt64(v))}
		case u.Info()&types.IsFloat != 0:
			if f, ok := v.(float32); ok {
				return iface{types.Typ[types.Float64], float64(f)}
			}
			return iface{types.Typ[types.Float64], v}
		}
	}
	panic(infraError{"toGeneric: unsupported type " + t.String()})
}

// ---- lazily initialised JSON values (DESIGN 5 C20).  A lazy object decides "key present?" when the
// code looks a key up; the value found is undecided until the code type-asserts it, and each
// assertion decides only "is of that type / is not".  Every shape the code can distinguish is
// explored and nothing else.

type lazyInfo struct {
	path  string
	depth int
}

type lazyVal struct {
	path    string
	depth   int
	decided *iface // once an assertion succeeded
	not     []types.Type
}

var tLazy = types.NewNamed(types.NewTypeName(token.NoPos, nil, "undecidedJSON", nil), types.NewStruct(nil, nil), nil)

func (e *Engine) newLazyMap(path string, depth int) *omap {
	return &omap{keyType: types.Typ[types.String], idx: map[value]int{}, lazy: &lazyInfo{path, depth}}
}

func (e *Engine) lazyDecide(m *omap, key string) (value, bool) {
	li := m.lazy
	child := li.path + "." + key
	switch e.decide(make([]string, 3)) {
	case 1:
		e.api = append(e.api, APIEvent{Kind: "lazy", Name: child, Val: "absent"})
		return nil, false
	case 2:
		e.api = append(e.api, APIEvent{Kind: "lazy", Name: child, Val: "null"})
		m.insert(key, iface{})
		return iface{}, true
	}
	e.api = append(e.api, APIEvent{Kind: "lazy", Name: child, Val: "present"})
	v := iface{tLazy, &lazyVal{path: child, depth: li.depth}}
	m.insert(key, v)
	return v, true
}

// assertTo decides whether the undecided value is of type T (one of the types encoding/json
// produces: string, float64, bool, map[string]interface{}, []interface{}).
func (lv *lazyVal) assertTo(T types.Type) iface {
	e := E
	if lv.decided != nil {
		return *lv.decided
	}
	for _, n := range lv.not {
		if types.Identical(n, T) {
			return iface{tLazy, lv}
		}
	}
	kind := ""
	switch u := T.Underlying().(type) {
	case *types.Basic:
		switch {
		case u.Kind() == types.String:
			kind = "string"
		case u.Kind() == types.Float64:
			kind = "number"
		case u.Kind() == types.Bool:
			kind = "bool"
		}
	case *types.Map:
		kind = "object"
	case *types.Slice:
		kind = "array"
	}
	if kind == "" || !types.Identical(T, T.Underlying()) && kind != "object" && kind != "array" {
		// encoding/json never produces this type inside interface{}
		lv.not = append(lv.not, T)
		return iface{tLazy, lv}
	}
	if kind == "object" && !types.Identical(T, tGenMap) || kind == "array" && !types.Identical(T, tGenSlice) {
		lv.not = append(lv.not, T)
		return iface{tLazy, lv}
	}
	if lv.depth >= e.lazyMaxDepth() && (kind == "object" || kind == "array") {
		lv.not = append(lv.not, T) // depth bound: no deeper nesting
		e.Stubs["lazy JSON depth bound reached (deeper nesting not explored)"]++
		return iface{tLazy, lv}
	}
	if e.decide(make([]string, 2)) == 1 {
		e.api = append(e.api, APIEvent{Kind: "lazy", Name: lv.path, Val: "not:" + kind})
		lv.not = append(lv.not, T)
		return iface{tLazy, lv}
	}
	var d iface
	switch kind {
	case "string":
		d = iface{types.Typ[types.String], "x"}
	case "number":
		d = iface{types.Typ[types.Float64], float64(1)}
	case "bool":
		d = iface{types.Typ[types.Bool], true}
	case "object":
		d = iface{tGenMap, e.newLazyMap(lv.path, lv.depth+1)}
	case "array":
		if e.decide(make([]string, 2)) == 1 {
			kind = "array0"
			d = iface{tGenSlice, []value{}}
		} else {
			kind = "array1"
			d = iface{tGenSlice, []value{iface{tLazy, &lazyVal{path: lv.path + "[0]", depth: lv.depth + 1}}}}
		}
	}
	e.api = append(e.api, APIEvent{Kind: "lazy", Name: lv.path, Val: "is:" + kind})
	lv.decided = &d
	return d
}

func (e *Engine) lazyMaxDepth() int {
	if d, ok := e.Params["LAZY_DEPTH"]; ok {
		return d
	}
	return 4
}

func init() {
	externals[gosymPkg+"LazyJSON"] = func(fr *frame, a []value) value {
		return E.newLazyMap(a[0].(string), 0)
	}
}
