package symx

// Symbolic float64 (SMT FloatingPoint 11 53).  Used in three places only (DESIGN 2.2): priority
// weights, SafeFloat32, tokens-per-second.

import (
	"fmt"
	"go/token"
	"go/types"
	"math"
)

type symf struct {
	name string
	bits int // 64 or 32
}

func isSymF(v value) bool { _, ok := v.(symf); return ok }

func fpSort(bits int) string {
	if bits == 32 {
		return "(_ FloatingPoint 8 24)"
	}
	return "(_ FloatingPoint 11 53)"
}

func fpLiteral(f float64, bits int) string {
	if bits == 32 {
		b := math.Float32bits(float32(f))
		return fmt.Sprintf("(fp #b%01b #b%08b #b%023b)", b>>31, (b>>23)&0xff, b&0x7fffff)
	}
	b := math.Float64bits(f)
	return fmt.Sprintf("(fp #b%01b #b%011b #b%052b)", b>>63, (b>>52)&0x7ff, b&((1<<52)-1))
}

func (e *Engine) fpTerm(v value, bits int) string {
	switch v := v.(type) {
	case symf:
		return v.name
	case float64:
		return fpLiteral(v, bits)
	case float32:
		return fpLiteral(float64(v), bits)
	}
	panic(infraError{fmt.Sprintf("fpTerm %T", v)})
}

func (e *Engine) mkf(bits int, expr string) symf { return symf{e.def(fpSort(bits), expr), bits} }

func (e *Engine) freshF(label string, bits int) symf {
	e.nfresh++
	n := fmt.Sprintf("v%d_%s", e.nfresh, sanitize(label))
	if !e.declared[n] {
		e.declared[n] = true
		e.z.send(fmt.Sprintf("(declare-const %s %s)", n, fpSort(bits)))
	}
	return symf{n, bits}
}

func fpBits(t types.Type, x, y value) int {
	if b, ok := t.Underlying().(*types.Basic); ok && b.Kind() == types.Float32 {
		return 32
	}
	for _, v := range []value{x, y} {
		if s, ok := v.(symf); ok {
			return s.bits
		}
	}
	return 64
}

func (e *Engine) fpBinop(op token.Token, t types.Type, x, y value) value {
	bits := fpBits(t, x, y)
	a, b := e.fpTerm(x, bits), e.fpTerm(y, bits)
	switch op {
	case token.ADD:
		return e.mkf(bits, fmt.Sprintf("(fp.add RNE %s %s)", a, b))
	case token.SUB:
		return e.mkf(bits, fmt.Sprintf("(fp.sub RNE %s %s)", a, b))
	case token.MUL:
		return e.mkf(bits, fmt.Sprintf("(fp.mul RNE %s %s)", a, b))
	case token.QUO:
		return e.mkf(bits, fmt.Sprintf("(fp.div RNE %s %s)", a, b))
	case token.EQL:
		return e.mk(0, fmt.Sprintf("(fp.eq %s %s)", a, b))
	case token.NEQ:
		return e.mk(0, fmt.Sprintf("(not (fp.eq %s %s))", a, b))
	case token.LSS:
		return e.mk(0, fmt.Sprintf("(fp.lt %s %s)", a, b))
	case token.LEQ:
		return e.mk(0, fmt.Sprintf("(fp.leq %s %s)", a, b))
	case token.GTR:
		return e.mk(0, fmt.Sprintf("(fp.gt %s %s)", a, b))
	case token.GEQ:
		return e.mk(0, fmt.Sprintf("(fp.geq %s %s)", a, b))
	}
	panic(infraError{"fpBinop: op " + op.String()})
}

// fpConv converts a symbolic float to another numeric type.
func (e *Engine) fpConv(tdst types.Type, x symf) value {
	b, ok := tdst.Underlying().(*types.Basic)
	if !ok {
		panic(infraError{"fpConv to " + tdst.String()})
	}
	switch b.Kind() {
	case types.Float64:
		if x.bits == 64 {
			return x
		}
		return e.mkf(64, fmt.Sprintf("((_ to_fp 11 53) RNE %s)", x.name))
	case types.Float32:
		if x.bits == 32 {
			return x
		}
		return e.mkf(32, fmt.Sprintf("((_ to_fp 8 24) RNE %s)", x.name))
	}
	if bits, signed, ok := basicInfo(tdst); ok && bits > 0 {
		// Go: float -> int conversion truncates toward zero; out-of-range is implementation-defined.
		// Model the in-range case exactly (RTZ); out of range yields the solver's unspecified value,
		// which is a sound over-approximation of "implementation-defined".
		if signed {
			return e.mk(bits, fmt.Sprintf("((_ fp.to_sbv %d) RTZ %s)", bits, x.name))
		}
		return e.mk(bits, fmt.Sprintf("((_ fp.to_ubv %d) RTZ %s)", bits, x.name))
	}
	panic(infraError{"fpConv to " + tdst.String()})
}

// intToFP converts a symbolic integer to a float.
func (e *Engine) intToFP(tdst, tsrc types.Type, x sym) value {
	bits := 64
	if b, ok := tdst.Underlying().(*types.Basic); ok && b.Kind() == types.Float32 {
		bits = 32
	}
	_, signed, _ := basicInfo(tsrc)
	eb, sb := 11, 53
	if bits == 32 {
		eb, sb = 8, 24
	}
	if signed {
		return e.mkf(bits, fmt.Sprintf("((_ to_fp %d %d) RNE %s)", eb, sb, x.name))
	}
	return e.mkf(bits, fmt.Sprintf("((_ to_fp_unsigned %d %d) RNE %s)", eb, sb, x.name))
}
