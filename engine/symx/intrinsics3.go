package symx

import (
	"go/token"
	"go/types"
	"syscall"

	"golang.org/x/tools/go/ssa"
)

func init() {
	ex := externals
	ex["(syscall.Errno).Error"] = func(fr *frame, a []value) value { return syscall.Errno(asUint64Any(a[0])).Error() }
	ex["syscall.runtime_envs"] = func(fr *frame, a []value) value { return []value{} }
	ex["os.runtime_args"] = func(fr *frame, a []value) value { return []value{"olla"} }
	ex["syscall.Getpagesize"] = func(fr *frame, a []value) value { return 4096 }
	ex["syscall.runtimeSetenv"] = func(fr *frame, a []value) value { return nil }
	ex["internal/godebug.registerMetric"] = func(fr *frame, a []value) value { return nil }
	ex["internal/godebug.setUpdate"] = func(fr *frame, a []value) value { return nil }
	ex["internal/godebug.setNewIncNonDefault"] = func(fr *frame, a []value) value { return nil }
	ex["(*internal/godebug.Setting).Value"] = func(fr *frame, a []value) value { return "" }
	ex["(*internal/godebug.Setting).IncNonDefault"] = func(fr *frame, a []value) value { return nil }
	ex["internal/cpu.Initialize"] = func(fr *frame, a []value) value { return nil }
}

func init() {
	// errors.init uses reflectlite (unsafe) to build errorType, which only errors.As needs and
	// errors.As is an intrinsic here: initialise the one other global by hand.
	externals["errors.init"] = func(fr *frame, a []value) value {
		pkg := fr.i.prog.ImportedPackage("errors")
		if pkg == nil {
			return nil
		}
		if g, ok := pkg.Members["ErrUnsupported"].(*ssa.Global); ok {
			newFn := pkg.Func("New")
			v := call(fr.i, fr, token.NoPos, newFn, []value{"unsupported operation"})
			*fr.i.globalCell(g) = v
		}
		return nil
	}
}

// The file system is environment: nothing exists (the shipped defaults are what the code falls
// back to).  Files that matter to a property are precomputed into tables by the harness (3.4).
func pathError(fr *frame, op string, path value) iface {
	fs := fr.i.prog.ImportedPackage("io/fs")
	sc := fr.i.prog.ImportedPackage("syscall")
	if fs == nil || sc == nil {
		return iface{fr.i.runtimeErrorString, "file does not exist"}
	}
	errno := iface{sc.Type("Errno").Object().Type(), uintptr(2)} // ENOENT
	var cell value = structure{op, path, errno}
	return iface{types.NewPointer(fs.Type("PathError").Object().Type()), &cell}
}

func init() {
	ex := externals
	ex["os.ReadFile"] = func(fr *frame, a []value) value { return tuple{[]value(nil), pathError(fr, "open", a[0])} }
	ex["os.Open"] = func(fr *frame, a []value) value { return tuple{(*value)(nil), pathError(fr, "open", a[0])} }
	ex["os.OpenFile"] = func(fr *frame, a []value) value { return tuple{(*value)(nil), pathError(fr, "open", a[0])} }
	ex["os.Stat"] = func(fr *frame, a []value) value { return tuple{iface{}, pathError(fr, "stat", a[0])} }
	ex["os.Lstat"] = ex["os.Stat"]
	ex["os.ReadDir"] = func(fr *frame, a []value) value { return tuple{[]value(nil), pathError(fr, "open", a[0])} }
	ex["os.MkdirAll"] = func(fr *frame, a []value) value { return pathError(fr, "mkdir", a[0]) }
	ex["os.Getwd"] = func(fr *frame, a []value) value { return tuple{"/", iface{}} }
	ex["os.Executable"] = func(fr *frame, a []value) value { return tuple{"/olla", iface{}} }
	ex["os.IsNotExist"] = func(fr *frame, a []value) value { return a[0].(iface).t != nil }
	ex["os.LookupEnv"] = func(fr *frame, a []value) value { return tuple{"", false} }
	ex["os.Getenv"] = func(fr *frame, a []value) value { return "" }
}

func init() {
	// A time-seeded private RNG (rand.New(rand.NewSource(time.Now().UnixNano()))) would push the
	// symbolic clock through the seeding LCG: the seed is replaced by a constant, i.e. private RNGs
	// are deterministic in the model.  The package-level rand.Float64/Intn stay symbolic.
	externals["math/rand.seedrand"] = func(fr *frame, a []value) value {
		E.Stubs["math/rand private source seeded with a constant"]++
		return int32(1)
	}
}

func init() {
	// message ids: crypto/rand + math/big (assembly); the id is opaque to every obligation
	externals["(*github.com/thushan/olla/internal/adapter/translator/anthropic.Translator).generateMessageID"] = func(fr *frame, a []value) value {
		E.Stubs["anthropic.Translator.generateMessageID -> constant id"]++
		return "msg_01verif"
	}
	externals["crypto/rand.Read"] = func(fr *frame, a []value) value {
		b := a[0].([]value)
		for i := range b {
			b[i] = byte(i*37 + 11)
		}
		return tuple{len(b), iface{}}
	}
}

func init() {
	// context.WithValue checks key comparability through reflectlite (unsafe); build the valueCtx
	// directly.  Value lookups then run the real (*valueCtx).Value / context.value code.
	externals["context.WithValue"] = func(fr *frame, a []value) value {
		parent, ok := a[0].(iface)
		if !ok || parent.t == nil {
			panic(targetPanic{iface{fr.i.runtimeErrorString, "cannot create context from nil parent"}})
		}
		if k, ok := a[1].(iface); !ok || k.t == nil {
			panic(targetPanic{iface{fr.i.runtimeErrorString, "nil key"}})
		}
		pkg := fr.i.prog.ImportedPackage("context")
		vt := pkg.Type("valueCtx").Object().Type()
		var cell value = structure{parent, a[1], a[2]}
		return iface{types.NewPointer(vt), &cell}
	}
}

func init() {
	// logging is never the subject: structured-logging sinks get empty bodies (DESIGN 3.2)
	nop := func(fr *frame, a []value) value { return nil }
	for _, m := range []string{"Debug", "Info", "Warn", "Error", "DebugContext", "InfoContext", "WarnContext", "ErrorContext", "Log", "LogAttrs", "log", "logAttrs"} {
		externals["(*log/slog.Logger)."+m] = nop
	}
	externals["(*log/slog.Logger).Enabled"] = func(fr *frame, a []value) value { return false }
	externals["log/slog.Debug"], externals["log/slog.Info"], externals["log/slog.Warn"], externals["log/slog.Error"] = nop, nop, nop, nop
	for _, m := range []string{"Printf", "Println", "Print"} {
		externals["log."+m] = nop
		externals["(*log.Logger)."+m] = nop
	}
}

// xsync.Counter: a striped counter built on unsafe/atomics; modelled as one int64 cell.
func init() {
	externals["github.com/puzpuzpuz/xsync/v4.NewCounter"] = func(fr *frame, a []value) value {
		var cell value = int64(0)
		return &cell
	}
	cnt := "(*github.com/puzpuzpuz/xsync/v4.Counter)."
	add := func(d func(a []value) value) externalFn {
		return func(fr *frame, a []value) value {
			E.yield(false)
			p := a[0].(*value)
			if _, ok := (*p).(int64); !ok {
				if _, isSym := (*p).(sym); !isSym {
					*p = int64(0) // a zero-value Counter struct adopted in place
				}
			}
			*p = binop(token.ADD, tInt64, *p, d(a))
			return nil
		}
	}
	externals[cnt+"Inc"] = add(func(a []value) value { return int64(1) })
	externals[cnt+"Dec"] = add(func(a []value) value { return int64(-1) })
	externals[cnt+"Add"] = add(func(a []value) value { return a[1] })
	externals[cnt+"Value"] = func(fr *frame, a []value) value {
		E.yield(false)
		p := a[0].(*value)
		if v, ok := (*p).(int64); ok {
			return v
		}
		if s, ok := (*p).(sym); ok {
			return s
		}
		return int64(0)
	}
	externals[cnt+"Reset"] = func(fr *frame, a []value) value { *(a[0].(*value)) = int64(0); return nil }
}
