package symx

import (
	"go/token"
	"syscall"

	"golang.org/x/tools/go/ssa"
)

func init() {
	ex := externals
	ex["(syscall.Errno).Error"] = func(fr *frame, a []value) value { return syscall.Errno(asUint64Any(a[0])).Error() }
	ex["syscall.runtime_envs"] = func(fr *frame, a []value) value { return []value{} }
	ex["os.runtime_args"] = func(fr *frame, a []value) value { return []value{"olla"} }
	ex["syscall.Getpagesize"] = func(fr *frame, a []value) value { return 4096 }
	ex["syscall.runtimeSetenv"] = func(fr *frame, a []value) value { return nil }
	ex["internal/godebug.registerMetric"] = func(fr *frame, a []value) value { return nil }
	ex["internal/godebug.setUpdate"] = func(fr *frame, a []value) value { return nil }
	ex["internal/godebug.setNewIncNonDefault"] = func(fr *frame, a []value) value { return nil }
	ex["(*internal/godebug.Setting).Value"] = func(fr *frame, a []value) value { return "" }
	ex["(*internal/godebug.Setting).IncNonDefault"] = func(fr *frame, a []value) value { return nil }
	ex["internal/cpu.Initialize"] = func(fr *frame, a []value) value { return nil }
}

func init() {
	// errors.init uses reflectlite (unsafe) to build errorType, which only errors.As needs and
	// errors.As is an intrinsic here: initialise the one other global by hand.
	externals["errors.init"] = func(fr *frame, a []value) value {
		pkg := fr.i.prog.ImportedPackage("errors")
		if pkg == nil {
			return nil
		}
		if g, ok := pkg.Members["ErrUnsupported"].(*ssa.Global); ok {
			newFn := pkg.Func("New")
			v := call(fr.i, fr, token.NoPos, newFn, []value{"unsupported operation"})
			*fr.i.globalCell(g) = v
		}
		return nil
	}
}
