package symx

import (
	"encoding/json"
	"fmt"
	"os"
	"path/filepath"
	"sort"
	"strings"
	"time"

	"golang.org/x/tools/go/packages"
	"golang.org/x/tools/go/ssa"
	"golang.org/x/tools/go/ssa/ssautil"
)

// JobSpec describes one symbolic exploration: one harness entry point under one parameter set.
type JobSpec struct {
	Property string         `json:"property"`
	Name     string         `json:"name"`
	Repo     string         `json:"repo"`
	Pkg      string         `json:"pkg"`   // package directory relative to the repo
	Files    []string       `json:"files"` // harness files (absolute paths); package clause rewritten
	Entry    string         `json:"entry"`
	Solver   string         `json:"solver"`
	Params   map[string]int `json:"params"`
	MaxPaths int            `json:"max_paths"`
	BudgetS  int            `json:"budget_s"`
	Samples  int            `json:"samples"`
	KFOpen   []string       `json:"kf_open"`
	Must     []string       `json:"must_reach_funcs"` // substrings of function names that must be executed
	GosymSrc string         `json:"gosym_src"`        // path of the gosym API package source
	SecondMax int           `json:"second_max"`       // re-decide up to this many assertion queries with another solver
	Seed      int           `json:"seed"`
	// Overrides: ssa function name -> "import/path.Func" of a replacement with the same parameters
	// (receiver first).  Used for environment seams that are concrete types (DESIGN 3.2).
	Overrides map[string]string `json:"overrides,omitempty"`
	// Extra overlay files for other packages: repo-relative package dir -> files (package clause kept)
	Extra map[string][]string `json:"extra,omitempty"`
}

type JobResult struct {
	Spec         JobSpec        `json:"spec"`
	Infra        string         `json:"infra,omitempty"`
	LoadS        float64        `json:"load_s"`
	ExploreS     float64        `json:"explore_s"`
	Paths        int            `json:"paths"`
	Aborted      map[string]int `json:"aborted,omitempty"`
	Forks        int            `json:"forks"`
	Decisions    int            `json:"decisions"`
	SchedDec     int            `json:"sched_decisions"`
	Goroutines   int            `json:"goroutines_spawned"`
	Asserts      int            `json:"asserts"`
	Discharged   int            `json:"discharged"`
	AssertLabels map[string]int `json:"assert_labels"`
	Queries      int            `json:"queries"`
	Sat          int            `json:"sat"`
	Unsat        int            `json:"unsat"`
	Unknown      int            `json:"unknown"`
	UnknownFeas  int            `json:"unknown_feasibility"`
	SolverS      float64        `json:"solver_s"`
	Defs         int            `json:"smt_definitions"`
	Reached      map[string]int `json:"reached"`
	Violations   []Violation    `json:"violations,omitempty"`
	Samples      []PathSample   `json:"samples,omitempty"`
	Funcs        []FuncInfo     `json:"functions_encoded"`
	Stubs        map[string]int `json:"stubs_hit,omitempty"`
	Second       map[string]any `json:"second_solver,omitempty"`
	HarnessOverlay map[string]string `json:"-"`
}

// HarnessOverlay builds the overlay map (virtual path -> contents) for a job.
func HarnessOverlay(spec *JobSpec) (map[string][]byte, string, error) {
	ov := map[string][]byte{}
	pkgDir := filepath.Join(spec.Repo, spec.Pkg)
	pkgName, err := packageNameOf(pkgDir)
	if err != nil {
		return nil, "", err
	}
	for _, f := range spec.Files {
		src, err := os.ReadFile(f)
		if err != nil {
			return nil, "", err
		}
		s := string(src)
		// rewrite the package clause to the package under test
		lines := strings.SplitN(s, "\n", -1)
		for i, l := range lines {
			if strings.HasPrefix(l, "package ") {
				lines[i] = "package " + pkgName
				break
			}
		}
		base := strings.TrimSuffix(filepath.Base(f), ".go")
		ov[filepath.Join(pkgDir, "zz_verif_"+base+".go")] = []byte(strings.Join(lines, "\n"))
	}
	for dir, files := range spec.Extra {
		for _, f := range files {
			src, err := os.ReadFile(f)
			if err != nil {
				return nil, "", err
			}
			base := strings.TrimSuffix(filepath.Base(f), ".go")
			ov[filepath.Join(spec.Repo, dir, "zz_verif_"+base+".go")] = src
		}
	}
	gsrc, err := os.ReadFile(spec.GosymSrc)
	if err != nil {
		return nil, "", err
	}
	ov[filepath.Join(spec.Repo, "internal/zzverif/gosym/gosym.go")] = gsrc
	return ov, pkgName, nil
}

func packageNameOf(dir string) (string, error) {
	ents, err := os.ReadDir(dir)
	if err != nil {
		return "", err
	}
	for _, e := range ents {
		n := e.Name()
		if !strings.HasSuffix(n, ".go") || strings.HasSuffix(n, "_test.go") {
			continue
		}
		b, err := os.ReadFile(filepath.Join(dir, n))
		if err != nil {
			continue
		}
		for _, l := range strings.Split(string(b), "\n") {
			l = strings.TrimSpace(l)
			if strings.HasPrefix(l, "package ") {
				return strings.Fields(l)[1], nil
			}
		}
	}
	return "", fmt.Errorf("no Go package in %s", dir)
}

func RunJob(spec JobSpec) (res JobResult) {
	res.Spec = spec
	t0 := time.Now()
	ov, _, err := HarnessOverlay(&spec)
	if err != nil {
		res.Infra = "overlay: " + err.Error()
		return
	}
	cfg := &packages.Config{Mode: packages.LoadAllSyntax, Dir: spec.Repo, Overlay: ov,
		Env: append(os.Environ(), "GOFLAGS=-mod=mod", "GOPROXY=off")}
	pkgs, err := packages.Load(cfg, "./"+spec.Pkg)
	if err != nil {
		res.Infra = "load: " + err.Error()
		return
	}
	var errs []string
	packages.Visit(pkgs, nil, func(p *packages.Package) {
		for _, e := range p.Errors {
			errs = append(errs, e.Error())
		}
	})
	if len(errs) > 0 {
		if len(errs) > 8 {
			errs = errs[:8]
		}
		res.Infra = "harness or repository does not type-check: " + strings.Join(errs, "; ")
		return
	}
	prog, spkgs := ssautil.AllPackages(pkgs, ssa.InstantiateGenerics)
	prog.Build()
	res.LoadS = time.Since(t0).Seconds()
	fn := spkgs[0].Func(spec.Entry)
	if fn == nil {
		res.Infra = "no such harness entry: " + spec.Entry
		return
	}
	e := NewEngine(spec.Solver)
	defer e.z.close()
	e.EntryName = spec.Entry
	for k, v := range spec.Params {
		e.Params[k] = v
	}
	if spec.MaxPaths > 0 {
		e.MaxPaths = spec.MaxPaths
	}
	if spec.BudgetS > 0 {
		e.Deadline = time.Now().Add(time.Duration(spec.BudgetS) * time.Second)
	}
	if spec.Samples > 0 {
		e.SampleN = spec.Samples
	}
	for _, k := range spec.KFOpen {
		e.KFOpen[k] = true
	}
	e.Overrides = map[string]*ssa.Function{}
	for from, to := range spec.Overrides {
		i := strings.LastIndex(to, ".")
		pkg := prog.ImportedPackage(to[:i])
		if pkg == nil || pkg.Func(to[i+1:]) == nil {
			res.Infra = "override target not found: " + to
			return
		}
		e.Overrides[from] = pkg.Func(to[i+1:])
	}
	t1 := time.Now()
	res.Infra = Explore(prog, fn, e)
	res.ExploreS = time.Since(t1).Seconds()
	res.Paths, res.Aborted, res.Forks, res.Decisions = e.Paths, e.Aborted, e.Forks, e.Decisions
	res.SchedDec, res.Goroutines = e.SchedDecisions, e.Spawned
	res.Asserts, res.Discharged, res.AssertLabels = e.Asserts, e.Discharged, e.AssertLabels
	res.Queries, res.Sat, res.Unsat, res.Unknown, res.SolverS = e.SolverStats()
	res.UnknownFeas = e.UnknownFeas
	res.Defs = e.ndefs
	res.Reached = e.Reached
	res.Violations = e.Violations
	res.Samples = e.Samples
	res.Stubs = e.Stubs
	if res.Infra == "" && spec.SecondMax > 0 {
		other := map[string]string{"cvc5int": "z3new", "cvc5": "z3new", "z3": "cvc5", "z3new": "cvc5"}[e.z.kind]
		if other == "" {
			other = "cvc5"
		}
		checked, agreed, noOp, dis := e.z.secondOpinion(other, spec.SecondMax, spec.Seed, 20*time.Second, time.Duration(spec.SecondMax)*time.Second)
		res.Second = map[string]any{"solver": other, "recorded_assertion_queries": len(e.z.finalQ), "feasibility_queries_sampled_from": e.z.nfeas, "rechecked": checked, "agreed": agreed, "no_second_opinion": noOp, "disagreements": dis}
		if len(dis) > 0 {
			res.Infra = "solver disagreement: " + strings.Join(dis, "; ")
		}
	}
	res.Funcs = e.FuncsEncoded(prog, "zz_verif_")
	sort.Slice(res.Funcs, func(i, j int) bool { return res.Funcs[i].Name < res.Funcs[j].Name })
	if res.Infra == "" {
		for _, m := range spec.Must {
			found := false
			for _, f := range res.Funcs {
				if strings.Contains(f.Name, m) {
					found = true
				}
			}
			if !found {
				res.Infra = "vacuity: must-reach function never executed: " + m
			}
		}
	}
	return
}

func (r *JobResult) JSON() []byte {
	b, _ := json.MarshalIndent(r, "", " ")
	return b
}
