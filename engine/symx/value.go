// Copyright 2013 The Go Authors. All rights reserved.
// Use of this source code is governed by a BSD-style
// license that can be found in the LICENSE file.

package symx

// Values
//
// All interpreter values are "boxed" in the empty interface, value.
// The range of possible dynamic types within value are:
//
// - bool
// - numbers (all built-in int/float/complex types are distinguished)
// - string
// - map[value]value --- maps for which  usesBuiltinMap(keyType)
//   *hashmap        --- maps for which !usesBuiltinMap(keyType)
// - chan value
// - []value --- slices
// - iface --- interfaces.
// - structure --- structs.  Fields are ordered and accessed by numeric indices.
// - array --- arrays.
// - *value --- pointers.  Careful: *value is a distinct type from *array etc.
// - *ssa.Function \
//   *ssa.Builtin   } --- functions.  A nil 'func' is always of type *ssa.Function.
//   *closure      /
// - tuple --- as returned by Return, Next, "value,ok" modes, etc.
// - iter --- iterators from 'range' over map or string.
// - bad --- a poison pill for locals that have gone out of scope.
// - rtype -- the interpreter's concrete implementation of reflect.Type
// - **deferred -- the address of a frame's defer stack for a Defer._Stack.
//
// Note that nil is not on this list.
//
// Pay close attention to whether or not the dynamic type is a pointer.
// The compiler cannot help you since value is an empty interface.

import (
	"bytes"
	"fmt"
	"go/token"
	"go/types"
	"io"
	"reflect"
	"strings"
	"sync"
	"unsafe"

	"golang.org/x/tools/go/ssa"
	"golang.org/x/tools/go/types/typeutil"
)

type value interface{}

type tuple []value

type array []value

type iface struct {
	t types.Type // never an "untyped" type
	v value
}

type structure []value

// For map, array, *array, slice, string or channel.
type iter interface {
	// next returns a Tuple (key, value, ok).
	// key and value are unaliased, e.g. copies of the sequence element.
	next() tuple
}

type closure struct {
	Fn  *ssa.Function
	Env []value
}

type bad struct{}

type rtype struct {
	t types.Type
}

// Hash functions and equivalence relation:

// hashString computes the FNV hash of s.
func hashString(s string) int {
	var h uint32
	for i := 0; i < len(s); i++ {
		h ^= uint32(s[i])
		h *= 16777619
	}
	return int(h)
}

var (
	mu     sync.Mutex
	hasher = typeutil.MakeHasher()
)

// hashType returns a hash for t such that
// types.Identical(x, y) => hashType(x) == hashType(y).
func hashType(t types.Type) int {
	return int(hasher.Hash(t))
}

// usesBuiltinMap returns true if the built-in hash function and
// equivalence relation for type t are consistent with those of the
// interpreter's representation of type t.  Such types are: all basic
// types (bool, numbers, string), pointers and channels.
//
// usesBuiltinMap returns false for types that require a custom map
// implementation: interfaces, arrays and structs.
//
// Panic ensues if t is an invalid map key type: function, map or slice.
func usesBuiltinMap(t types.Type) bool {
	switch t := t.(type) {
	case *types.Basic, *types.Chan, *types.Pointer:
		return true
	case *types.Named, *types.Alias:
		return usesBuiltinMap(t.Underlying())
	case *types.Interface, *types.Array, *types.Struct:
		return false
	}
	panic(fmt.Sprintf("invalid map key type: %T", t))
}

func (x array) eq(t types.Type, _y interface{}) bool {
	y := _y.(array)
	tElt := t.Underlying().(*types.Array).Elem()
	for i, xi := range x {
		if !equals(tElt, xi, y[i]) {
			return false
		}
	}
	return true
}

func (x array) hash(t types.Type) int {
	h := 0
	tElt := t.Underlying().(*types.Array).Elem()
	for _, xi := range x {
		h += hash(t, tElt, xi)
	}
	return h
}

func (x structure) eq(t types.Type, _y interface{}) bool {
	y := _y.(structure)
	tStruct := t.Underlying().(*types.Struct)
	for i, n := 0, tStruct.NumFields(); i < n; i++ {
		if f := tStruct.Field(i); !f.Anonymous() {
			if !equals(f.Type(), x[i], y[i]) {
				return false
			}
		}
	}
	return true
}

func (x structure) hash(t types.Type) int {
	tStruct := t.Underlying().(*types.Struct)
	h := 0
	for i, n := 0, tStruct.NumFields(); i < n; i++ {
		if f := tStruct.Field(i); !f.Anonymous() {
			h += hash(t, f.Type(), x[i])
		}
	}
	return h
}

// nil-tolerant variant of types.Identical.
func sameType(x, y types.Type) bool {
	if x == nil {
		return y == nil
	}
	return y != nil && types.Identical(x, y)
}

func (x iface) eq(t types.Type, _y interface{}) bool {
	y := _y.(iface)
	return sameType(x.t, y.t) && (x.t == nil || equals(x.t, x.v, y.v))
}

func (x iface) hash(outer types.Type) int {
	return hashType(x.t)*8581 + hash(outer, x.t, x.v)
}

func (x rtype) hash(_ types.Type) int {
	return hashType(x.t)
}

func (x rtype) eq(_ types.Type, y interface{}) bool {
	return types.Identical(x.t, y.(rtype).t)
}

// equals returns true iff x and y are equal according to Go's
// linguistic equivalence relation for type t.
// In a well-typed program, the dynamic types of x and y are
// guaranteed equal.
func equals(t types.Type, x, y value) bool {
	if isSymStr(x) || isSymStr(y) {
		return E.truth(E.strBinop(token.EQL, x, y))
	}
	if isSym(x) || isSym(y) {
		r := E.symBinop(token.EQL, t, x, y)
		return E.Branch(r.(sym))
	}
	switch x := x.(type) {
	case bool:
		return x == y.(bool)
	case int:
		return x == y.(int)
	case int8:
		return x == y.(int8)
	case int16:
		return x == y.(int16)
	case int32:
		return x == y.(int32)
	case int64:
		return x == y.(int64)
	case uint:
		return x == y.(uint)
	case uint8:
		return x == y.(uint8)
	case uint16:
		return x == y.(uint16)
	case uint32:
		return x == y.(uint32)
	case uint64:
		return x == y.(uint64)
	case uintptr:
		return x == y.(uintptr)
	case float32:
		return x == y.(float32)
	case float64:
		return x == y.(float64)
	case complex64:
		return x == y.(complex64)
	case complex128:
		return x == y.(complex128)
	case string:
		return x == y.(string)
	case *value:
		return x == y.(*value)
	case *xchan:
		return x == y.(*xchan)
	case structure:
		return x.eq(t, y)
	case array:
		return x.eq(t, y)
	case iface:
		return x.eq(t, y)
	case rtype:
		return x.eq(t, y)
	}

	// Since map, func and slice don't support comparison, this
	// case is only reachable if one of x or y is literally nil
	// (handled in eqnil) or via interface{} values.
	panic(fmt.Sprintf("comparing uncomparable type %s", t))
}

// Returns an integer hash of x such that equals(x, y) => hash(x) == hash(y).
// The outer type is used only for the "unhashable" panic message.
func hash(outer, t types.Type, x value) int {
	switch x := x.(type) {
	case bool:
		if x {
			return 1
		}
		return 0
	case int:
		return x
	case int8:
		return int(x)
	case int16:
		return int(x)
	case int32:
		return int(x)
	case int64:
		return int(x)
	case uint:
		return int(x)
	case uint8:
		return int(x)
	case uint16:
		return int(x)
	case uint32:
		return int(x)
	case uint64:
		return int(x)
	case uintptr:
		return int(x)
	case float32:
		return int(x)
	case float64:
		return int(x)
	case complex64:
		return int(real(x))
	case complex128:
		return int(real(x))
	case string:
		return hashString(x)
	case *value:
		return int(uintptr(unsafe.Pointer(x)))
	case *xchan:
		return int(uintptr(reflect.ValueOf(x).Pointer()))
	case structure:
		return x.hash(t)
	case array:
		return x.hash(t)
	case iface:
		return x.hash(t)
	case rtype:
		return x.hash(t)
	}
	panic(fmt.Sprintf("unhashable type %v", outer))
}

// reflect.Value struct values don't have a fixed shape, since the
// payload can be a scalar or an aggregate depending on the instance.
// So store (and load) can't simply use recursion over the shape of the
// rhs value, or the lhs, to copy the value; we need the static type
// information.  (We can't make reflect.Value a new basic data type
// because its "structness" is exposed to Go programs.)

// load returns the value of type T in *addr.
func load(T types.Type, addr *value) value {
	switch T := T.Underlying().(type) {
	case *types.Struct:
		if m, ok := (*addr).(*xmap); ok {
			return m // an xsync.Map held by value: the model is shared by reference (copying a used map is a bug in Go too)
		}
		v := (*addr).(structure)
		a := make(structure, len(v))
		for i := range a {
			a[i] = load(T.Field(i).Type(), &v[i])
		}
		return a
	case *types.Array:
		v := (*addr).(array)
		a := make(array, len(v))
		for i := range a {
			a[i] = load(T.Elem(), &v[i])
		}
		return a
	default:
		return *addr
	}
}

// store stores value v of type T into *addr.
func store(T types.Type, addr *value, v value) {
	switch T := T.Underlying().(type) {
	case *types.Struct:
		if m, ok := v.(*xmap); ok {
			*addr = m
			return
		}
		if _, ok := (*addr).(*xmap); ok {
			*addr = v
			return
		}
		lhs := (*addr).(structure)
		rhs := v.(structure)
		for i := range lhs {
			store(T.Field(i).Type(), &lhs[i], rhs[i])
		}
	case *types.Array:
		lhs := (*addr).(array)
		rhs := v.(array)
		for i := range lhs {
			store(T.Elem(), &lhs[i], rhs[i])
		}
	default:
		*addr = v
	}
}

// Prints in the style of built-in println.
// (More or less; in gc println is actually a compiler intrinsic and
// can distinguish println(1) from println(interface{}(1)).)
func writeValue(buf *bytes.Buffer, v value) {
	switch v := v.(type) {
	case nil, bool, int, int8, int16, int32, int64, uint, uint8, uint16, uint32, uint64, uintptr, float32, float64, complex64, complex128, string:
		fmt.Fprintf(buf, "%v", v)

	case *omap:
		buf.WriteString("map[")
		if v != nil {
			for i := range v.keys {
				if i > 0 {
					buf.WriteString(" ")
				}
				writeValue(buf, v.keys[i])
				buf.WriteString(":")
				writeValue(buf, v.vals[i])
			}
		}
		buf.WriteString("]")

	case *xchan:
		fmt.Fprintf(buf, "%v", v) // (an address)

	case *value:
		if v == nil {
			buf.WriteString("<nil>")
		} else {
			fmt.Fprintf(buf, "%p", v)
		}

	case iface:
		fmt.Fprintf(buf, "(%s, ", v.t)
		writeValue(buf, v.v)
		buf.WriteString(")")

	case structure:
		buf.WriteString("{")
		for i, e := range v {
			if i > 0 {
				buf.WriteString(" ")
			}
			writeValue(buf, e)
		}
		buf.WriteString("}")

	case array:
		buf.WriteString("[")
		for i, e := range v {
			if i > 0 {
				buf.WriteString(" ")
			}
			writeValue(buf, e)
		}
		buf.WriteString("]")

	case []value:
		buf.WriteString("[")
		for i, e := range v {
			if i > 0 {
				buf.WriteString(" ")
			}
			writeValue(buf, e)
		}
		buf.WriteString("]")

	case *ssa.Function, *ssa.Builtin, *closure:
		fmt.Fprintf(buf, "%p", v) // (an address)

	case rtype:
		buf.WriteString(v.t.String())

	case tuple:
		// Unreachable in well-formed Go programs
		buf.WriteString("(")
		for i, e := range v {
			if i > 0 {
				buf.WriteString(", ")
			}
			writeValue(buf, e)
		}
		buf.WriteString(")")

	default:
		fmt.Fprintf(buf, "<%T>", v)
	}
}

// Implements printing of Go values in the style of built-in println.
func toString(v value) string {
	var b bytes.Buffer
	writeValue(&b, v)
	return b.String()
}

// ------------------------------------------------------------------------
// Iterators

type stringIter struct {
	*strings.Reader
	i int
}

func (it *stringIter) next() tuple {
	okv := make(tuple, 3)
	ch, n, err := it.ReadRune()
	ok := err != io.EOF
	okv[0] = ok
	if ok {
		okv[1] = it.i
		okv[2] = ch
	}
	it.i += n
	return okv
}

