package symx

import (
	"fmt"
	"go/token"
	"go/types"
)

// symstr is a string whose bytes may be symbolic; length is concrete.
type symstr []value

var tByte = types.Typ[types.Uint8]

func isSymStr(v value) bool { _, ok := v.(symstr); return ok }

func strElems(v value) []value {
	switch v := v.(type) {
	case string:
		r := make([]value, len(v))
		for i := 0; i < len(v); i++ {
			r[i] = v[i]
		}
		return r
	case symstr:
		return []value(v)
	}
	panic(fmt.Sprintf("strElems: %T", v))
}

func mkstr(el []value) value {
	b := make([]byte, len(el))
	for i, e := range el {
		c, ok := e.(byte)
		if !ok {
			return symstr(append([]value{}, el...))
		}
		b[i] = c
	}
	return string(b)
}

// eqBytes returns a value (bool or sym) for elementwise equality of equal-length vectors.
func (e *Engine) eqBytes(a, b []value) value {
	var conj []string
	for i := range a {
		if !isSym(a[i]) && !isSym(b[i]) {
			if a[i].(byte) != b[i].(byte) {
				return false
			}
			continue
		}
		conj = append(conj, fmt.Sprintf("(= %s %s)", e.term(a[i], 8), e.term(b[i], 8)))
	}
	if len(conj) == 0 {
		return true
	}
	if len(conj) == 1 {
		return e.mk(0, conj[0])
	}
	s := "(and"
	for _, c := range conj {
		s += " " + c
	}
	return e.mk(0, s+")")
}

func (e *Engine) strBinop(op token.Token, x, y value) value {
	a, b := strElems(x), strElems(y)
	switch op {
	case token.ADD:
		return mkstr(append(append([]value{}, a...), b...))
	case token.EQL:
		if len(a) != len(b) {
			return false
		}
		return e.eqBytes(a, b)
	case token.NEQ:
		if len(a) != len(b) {
			return true
		}
		r := e.eqBytes(a, b)
		if c, ok := r.(bool); ok {
			return !c
		}
		return e.symUnop(token.NOT, nil, r.(sym))
	case token.LSS:
		return e.lessBytes(a, b)
	case token.GTR:
		return e.lessBytes(b, a)
	case token.LEQ:
		return boolNot(e.lessBytes(b, a))
	case token.GEQ:
		return boolNot(e.lessBytes(a, b))
	}
	panic(infraError{"strBinop: unsupported op " + op.String()})
}


func (e *Engine) indexOf(s, sub []value) int {
	for i := 0; i+len(sub) <= len(s); i++ {
		if e.truth(e.eqBytes(s[i:i+len(sub)], sub)) {
			return i
		}
	}
	return -1
}

func (e *Engine) countByte(s []value, c value) int {
	n := 0
	for i := range s {
		if e.truth(e.eqBytes(s[i:i+1], []value{c})) {
			n++
		}
	}
	return n
}

type symStrIter struct {
	s symstr
	i int
}

func (it *symStrIter) next() tuple {
	okv := make(tuple, 3)
	if it.i >= len(it.s) {
		okv[0] = false
		return okv
	}
	c := it.s[it.i]
	if sc, ok := c.(sym); ok {
		// ASCII only: fork, non-ASCII aborts the path (outside the prototype's bound)
		hi := E.mk(0, fmt.Sprintf("(bvuge %s %s)", sc.name, bvconst(0x80, 8)))
		if E.Branch(hi) {
			panic(pathAbort{"non-ASCII byte in range over symbolic string"})
		}
		okv[2] = E.symConv(types.Typ[types.Int32], tByte, sc)
	} else {
		if c.(byte) >= 0x80 {
			panic(pathAbort{"non-ASCII byte in range over symbolic string"})
		}
		okv[2] = rune(c.(byte))
	}
	okv[0] = true
	okv[1] = it.i
	it.i++
	return okv
}

func (e *Engine) lastIndexOf(s, sub []value) int {
	for i := len(s) - len(sub); i >= 0; i-- {
		if e.truth(e.eqBytes(s[i:i+len(sub)], sub)) {
			return i
		}
	}
	return -1
}

// containsTerm is strings.Contains as one term (no forks).
func (e *Engine) containsTerm(s, sub []value) value {
	if len(sub) == 0 {
		return true
	}
	var alts []value
	for i := 0; i+len(sub) <= len(s); i++ {
		alts = append(alts, e.eqBytes(s[i:i+len(sub)], sub))
	}
	return boolOr(alts)
}

// lessBytes is lexicographic a < b as a term.
func (e *Engine) lessBytes(a, b []value) value {
	// build from the end
	n := len(a)
	if len(b) < n {
		n = len(b)
	}
	var acc value = len(a) < len(b)
	for i := n - 1; i >= 0; i-- {
		if !isSym(a[i]) && !isSym(b[i]) {
			x, y := a[i].(byte), b[i].(byte)
			if x < y {
				acc = true
			} else if x > y {
				acc = false
			}
			continue
		}
		at, bt := e.term(a[i], 8), e.term(b[i], 8)
		acc = e.mk(0, fmt.Sprintf("(or (bvult %s %s) (and (= %s %s) %s))", at, bt, at, bt, e.boolTerm(acc)))
	}
	return acc
}
