package symx

import "go/types"

func mustDeref(t types.Type) types.Type {
	if p, ok := t.Underlying().(*types.Pointer); ok {
		return p.Elem()
	}
	panic("cannot dereference type " + t.String())
}
