package symx

import (
	"fmt"
	"go/token"
	"go/types"
	"os"
	"runtime"
	"sort"
	rtdebug "runtime/debug"
	"strings"
	"time"

	"golang.org/x/tools/go/ssa"
)

// extra engine state for goroutines (kept here to keep sym.go about terms)
type concState struct {
	gors           []*gor
	cur            *gor
	killed         bool
	killAck        chan struct{}
	fault          interface{}
	faultStack     []string
	SchedDecisions int
	Spawned        int
	rwReaders      map[*value]int
	wgCount        map[*value]int
	onceDone       map[*value]bool
	pools          map[*value][]value
	syncMaps       map[*value]*omap
}

func (i *interpreter) ensureInit(pkg *ssa.Package) {
	if pkg == nil {
		return
	}
	if perPathPkg(pkg) {
		if i.inited[pkg] {
			return
		}
		i.inited[pkg] = true
	} else {
		if i.persist.inited[pkg] {
			return
		}
		i.persist.inited[pkg] = true
	}
	if f := pkg.Func("init"); f != nil {
		saved := callFns
		call(i, nil, token.NoPos, f, nil)
		callFns = saved
	}
}

func (i *interpreter) externalFor(fn *ssa.Function) externalFn {
	if ext, ok := i.persist.extern[fn]; ok {
		return ext
	}
	if i.persist.noext[fn] {
		return nil
	}
	if fn.Parent() != nil {
		i.persist.noext[fn] = true
		return nil
	}
	name := fn.String()
	if to := E.Overrides[name]; to != nil {
		ext := func(fr *frame, a []value) value { return call(fr.i, fr, token.NoPos, to, a) }
		i.persist.extern[fn] = ext
		E.Stubs["override "+name+" -> "+to.String()]++
		return ext
	}
	ext := lookupExternal(fn, name)
	if ext == nil {
		i.persist.noext[fn] = true
		return nil
	}
	i.persist.extern[fn] = ext
	return ext
}

func (e *Engine) noteFunc(fn *ssa.Function) {
	if fn.Pkg != nil && perPathPkg(fn.Pkg) {
		e.funcsRun[fn]++
	} else if fn.Pkg == nil {
		// instantiated generics / wrappers: attribute by origin
		if o := fn.Origin(); o != nil && o.Pkg != nil && perPathPkg(o.Pkg) {
			e.funcsRun[o]++
		}
	}
}

type FuncInfo struct {
	Name   string `json:"name"`
	Calls  int    `json:"calls"`
	Instrs int    `json:"instrs"`
	File   string `json:"file,omitempty"`
}

func (e *Engine) FuncsEncoded(prog *ssa.Program, harnessFilePrefix string) []FuncInfo {
	var out []FuncInfo
	for fn, n := range e.funcsRun {
		pos := prog.Fset.Position(fn.Pos())
		if strings.Contains(pos.Filename, harnessFilePrefix) || strings.Contains(pos.Filename, "zzverif") {
			continue
		}
		ni := 0
		for _, b := range fn.Blocks {
			ni += len(b.Instrs)
		}
		file := pos.Filename
		if k := strings.Index(file, "/internal/"); k >= 0 {
			file = file[k+1:]
		}
		out = append(out, FuncInfo{Name: fn.String(), Calls: n, Instrs: ni, File: fmt.Sprintf("%s:%d", file, pos.Line)})
	}
	return out
}

func stackStrings() []string {
	var s []string
	for _, f := range callFns {
		s = append(s, f.String())
	}
	return s
}

// Explore runs fn (no args) over all feasible paths.
func Explore(prog *ssa.Program, fn *ssa.Function, e *Engine) (infra string) {
	E = e
	e.funcsRun = map[*ssa.Function]int{}
	e.killAck = make(chan struct{})
	persist := &persistState{globals: map[*ssa.Global]*value{}, inited: map[*ssa.Package]bool{}, extern: map[*ssa.Function]externalFn{}, noext: map[*ssa.Function]bool{}}
	sizes := &types.StdSizes{WordSize: 8, MaxAlign: 8}
	defer func() {
		if p := recover(); p != nil {
			if ie, ok := p.(infraError); ok {
				infra = ie.msg
			} else {
				infra = fmt.Sprintf("internal panic: %v", p)
			}
			if debug || !isInfra(p) {
				fmt.Fprintln(os.Stderr, "INTERNAL:", p)
				for _, f := range stackStrings() {
					fmt.Fprintln(os.Stderr, "   in", f)
				}
				if !isInfra(p) {
					os.Stderr.Write(debug_Stack())
				}
			}
			st := stackStrings()
			if len(e.faultStack) > 0 {
				st = e.faultStack
			}
			infra += " [at " + strings.Join(tail(st, 8), " < ") + "]"
		}
	}()
	for {
		e.resetRun()
		e.checkBudget()
		i := &interpreter{
			prog:       prog,
			globals:    make(map[*ssa.Global]*value),
			sizes:      sizes,
			goroutines: 1,
			inited:     make(map[*ssa.Package]bool),
			persist:    persist,
		}
		theInterp = i
		runtimePkg := i.prog.ImportedPackage("runtime")
		i.runtimeErrorString = runtimePkg.Type("errorString").Object().Type()
		initReflect(i)
		callFns = nil
		main := &gor{id: 0, wake: make(chan struct{}), started: true}
		e.gors = []*gor{main}
		e.cur = main
		var fatal interface{}
		func() {
			defer func() {
				if p := recover(); p != nil {
					switch p := p.(type) {
					case pathAbort:
						e.Aborted[p.why]++
					case targetPanic:
						e.pathPanic("target panic: " + panicString(p.v))
					case runtime.Error:
						e.pathPanic("target panic: runtime error: " + p.Error())
					case deadlockErr:
						e.pathHang("deadlock: " + p.desc)
					default:
						fatal = p
					}
				}
			}()
			call(i, nil, token.NoPos, fn, nil)
			e.drain()
			e.endPath()
		}()
		if os.Getenv("GOSYM_TRAILS") != "" && e.Paths < 40 {
			fmt.Fprintln(os.Stderr, "TRAIL", e.Paths, e.trailChoices())
		}
		e.killAll()
		if fatal != nil {
			panic(fatal)
		}
		e.Paths++
		if e.Paths >= e.MaxPaths {
			return fmt.Sprintf("budget: more than %d paths", e.MaxPaths)
		}
		if !e.backtrack() {
			break
		}
	}
	// cross-path existential obligations (gosym.Expect): every declared witness label must have
	// been reached by at least one feasible path.
	for _, l := range sortedKeysAPI(e.Expected) {
		e.Asserts++
		e.AssertLabels["expected witness is reachable"]++
		if e.Reached[l] > 0 {
			e.Discharged++
			continue
		}
		e.Violations = append(e.Violations, Violation{Label: "expected witness never reached: " + l, Unreached: l, API: e.Expected[l], Entry: e.EntryName})
	}
	return ""
}

func isInfra(p interface{}) bool { _, ok := p.(infraError); return ok }

func debug_Stack() []byte { return rtdebug.Stack() }

func tail(s []string, n int) []string {
	if len(s) > n {
		s = s[len(s)-n:]
	}
	// reverse: innermost first
	out := make([]string, len(s))
	for i := range s {
		out[len(s)-1-i] = s[i]
	}
	return out
}

func panicString(v value) string {
	if i, ok := v.(iface); ok {
		if s, ok := i.v.(string); ok {
			return s
		}
		if i.t != nil {
			if m := findMethodByName(i.t, "Error"); m != nil {
				func() {
					defer func() { recover() }()
					r := call(theInterp, nil, token.NoPos, m, []value{i.v})
					if s, ok := r.(string); ok {
						v = s
					}
				}()
				if s, ok := v.(string); ok {
					return s
				}
			}
		}
		return toString(i.v)
	}
	return toString(v)
}

// pathPanic records a target panic / deadlock that escaped the harness entry.  If the harness
// declared (gosym.ExpectPanicKF) that panics on this path belong to a known finding it is
// reported inside that region.
func (e *Engine) pathPanic(msg string) {
	if debug {
		fmt.Fprintln(os.Stderr, "PATH PANIC:", msg, "trail", e.trailChoices())
	}
	label := msg
	if k := strings.Index(label, " [g"); k > 0 {
		label = label[:k]
	}
	if len(label) > 120 {
		label = label[:120]
	}
	e.Asserts++
	e.AssertLabels["no panic/deadlock escapes the harness"]++
	q := append([]string{}, e.pc...)
	e.violation(label, "", false, msg, q)
}

var _ = time.Now

// pathHang records a deadlock (every goroutine blocked, no timer left to fire).  The harness may
// have attributed hangs to a known finding with gosym.OnHang(kfID, inRegion).
func (e *Engine) pathHang(msg string) {
	label := msg
	if k := strings.Index(label, " [g"); k > 0 {
		label = label[:k]
	}
	if k := strings.Index(label, "[g"); k > 0 {
		label = strings.TrimSpace(label[:k])
	}
	label = strings.TrimSuffix(strings.TrimSpace(label), ":")
	e.Asserts++
	e.AssertLabels["no panic/deadlock escapes the harness"]++
	q := append([]string{}, e.pc...)
	e.violation(label, e.hangKF, e.hangKF != "" && e.hangRegion, msg, q)
}

func sortedKeysAPI(m map[string][]APIEvent) []string {
	var ks []string
	for k := range m {
		ks = append(ks, k)
	}
	sort.Strings(ks)
	return ks
}
