// Copyright 2013 The Go Authors. All rights reserved.
// Use of this source code is governed by a BSD-style
// license that can be found in the LICENSE file.

package symx

// Emulated functions that we cannot interpret because they are
// external or because they use "unsafe" or "reflect" operations.

import (
	"bytes"
	"math"
	"os"
	"runtime"
	"sort"
	"strconv"
	"strings"
	"time"
	"unicode/utf8"
)

type externalFn func(fr *frame, args []value) value

// TODO(adonovan): fix: reflect.Value abstracts an lvalue or an
// rvalue; Set() causes mutations that can be observed via aliases.
// We have not captured that correctly here.

// Key strings are from Function.String().
var externals = make(map[string]externalFn)

func init() {
	// That little dot ۰ is an Arabic zero numeral (U+06F0), categories [Nd].
	for k, v := range map[string]externalFn{
		"(reflect.Value).Bool":            ext۰reflect۰Value۰Bool,
		"(reflect.Value).CanAddr":         ext۰reflect۰Value۰CanAddr,
		"(reflect.Value).CanInterface":    ext۰reflect۰Value۰CanInterface,
		"(reflect.Value).Elem":            ext۰reflect۰Value۰Elem,
		"(reflect.Value).Field":           ext۰reflect۰Value۰Field,
		"(reflect.Value).Float":           ext۰reflect۰Value۰Float,
		"(reflect.Value).Index":           ext۰reflect۰Value۰Index,
		"(reflect.Value).Int":             ext۰reflect۰Value۰Int,
		"(reflect.Value).Interface":       ext۰reflect۰Value۰Interface,
		"(reflect.Value).IsNil":           ext۰reflect۰Value۰IsNil,
		"(reflect.Value).IsValid":         ext۰reflect۰Value۰IsValid,
		"(reflect.Value).Kind":            ext۰reflect۰Value۰Kind,
		"(reflect.Value).Len":             ext۰reflect۰Value۰Len,
		"(reflect.Value).MapIndex":        ext۰reflect۰Value۰MapIndex,
		"(reflect.Value).MapKeys":         ext۰reflect۰Value۰MapKeys,
		"(reflect.Value).NumField":        ext۰reflect۰Value۰NumField,
		"(reflect.Value).NumMethod":       ext۰reflect۰Value۰NumMethod,
		"(reflect.Value).Pointer":         ext۰reflect۰Value۰Pointer,
		"(reflect.Value).Set":             ext۰reflect۰Value۰Set,
		"(reflect.Value).String":          ext۰reflect۰Value۰String,
		"(reflect.Value).Type":            ext۰reflect۰Value۰Type,
		"(reflect.Value).Uint":            ext۰reflect۰Value۰Uint,
		"(reflect.error).Error":           ext۰reflect۰error۰Error,
		"(reflect.rtype).Bits":            ext۰reflect۰rtype۰Bits,
		"(reflect.rtype).Elem":            ext۰reflect۰rtype۰Elem,
		"(reflect.rtype).Field":           ext۰reflect۰rtype۰Field,
		"(reflect.rtype).In":              ext۰reflect۰rtype۰In,
		"(reflect.rtype).Kind":            ext۰reflect۰rtype۰Kind,
		"(reflect.rtype).NumField":        ext۰reflect۰rtype۰NumField,
		"(reflect.rtype).NumIn":           ext۰reflect۰rtype۰NumIn,
		"(reflect.rtype).NumMethod":       ext۰reflect۰rtype۰NumMethod,
		"(reflect.rtype).NumOut":          ext۰reflect۰rtype۰NumOut,
		"(reflect.rtype).Out":             ext۰reflect۰rtype۰Out,
		"(reflect.rtype).Size":            ext۰reflect۰rtype۰Size,
		"(reflect.rtype).String":          ext۰reflect۰rtype۰String,
		"fmt.Sprint":                      ext۰fmt۰Sprint,
		"math.Abs":                        ext۰math۰Abs,
		"math.Copysign":                   ext۰math۰Copysign,
		"math.Exp":                        ext۰math۰Exp,
		"math.Float32bits":                ext۰math۰Float32bits,
		"math.Float32frombits":            ext۰math۰Float32frombits,
		"math.Float64bits":                ext۰math۰Float64bits,
		"math.Float64frombits":            ext۰math۰Float64frombits,
		"math.Inf":                        ext۰math۰Inf,
		"math.IsNaN":                      ext۰math۰IsNaN,
		"math.IsInf":                      ext۰math۰IsInf,
		"math.Ldexp":                      ext۰math۰Ldexp,
		"math.Log":                        ext۰math۰Log,
		"math.Min":                        ext۰math۰Min,
		"math.Max":                        ext۰math۰Max,
		"math.NaN":                        ext۰math۰NaN,
		"math.Sqrt":                       ext۰math۰Sqrt,
		"os.Exit":                         ext۰os۰Exit,
		"os.Getenv":                       ext۰os۰Getenv,
		"reflect.New":                     ext۰reflect۰New,
		"reflect.SliceOf":                 ext۰reflect۰SliceOf,
		"reflect.TypeOf":                  ext۰reflect۰TypeOf,
		"reflect.ValueOf":                 ext۰reflect۰ValueOf,
		"reflect.Zero":                    ext۰reflect۰Zero,
		"runtime.Breakpoint":              ext۰runtime۰Breakpoint,
		"runtime.GC":                      ext۰runtime۰GC,
		"runtime.GOMAXPROCS":              ext۰runtime۰GOMAXPROCS,
		"runtime.GOROOT":                  ext۰runtime۰GOROOT,
		"runtime.Goexit":                  ext۰runtime۰Goexit,
		"runtime.Gosched":                 ext۰runtime۰Gosched,
		"runtime.NumCPU":                  ext۰runtime۰NumCPU,
		"sort.Float64s":                   ext۰sort۰Float64s,
		"sort.Ints":                       ext۰sort۰Ints,
		"sort.Strings":                    ext۰sort۰Strings,
		"strconv.Atoi":                    ext۰strconv۰Atoi,
		"strconv.Itoa":                    ext۰strconv۰Itoa,
		"strconv.FormatFloat":             ext۰strconv۰FormatFloat,
		"time.Sleep":                      ext۰time۰Sleep,
	} {
		externals[k] = v
	}
}

func ext۰bytes۰Equal(fr *frame, args []value) value {
	// func Equal(a, b []byte) bool
	a := args[0].([]value)
	b := args[1].([]value)
	if len(a) != len(b) {
		return false
	}
	for i := range a {
		if a[i] != b[i] {
			return false
		}
	}
	return true
}

func ext۰bytes۰IndexByte(fr *frame, args []value) value {
	// func IndexByte(s []byte, c byte) int
	s := args[0].([]value)
	c := args[1].(byte)
	for i, b := range s {
		if b.(byte) == c {
			return i
		}
	}
	return -1
}

func ext۰math۰Float64frombits(fr *frame, args []value) value {
	return math.Float64frombits(args[0].(uint64))
}

func ext۰math۰Float64bits(fr *frame, args []value) value {
	return math.Float64bits(args[0].(float64))
}

func ext۰math۰Float32frombits(fr *frame, args []value) value {
	return math.Float32frombits(args[0].(uint32))
}

func ext۰math۰Abs(fr *frame, args []value) value {
	return math.Abs(args[0].(float64))
}

func ext۰math۰Copysign(fr *frame, args []value) value {
	return math.Copysign(args[0].(float64), args[1].(float64))
}

func ext۰math۰Exp(fr *frame, args []value) value {
	return math.Exp(args[0].(float64))
}

func ext۰math۰Float32bits(fr *frame, args []value) value {
	return math.Float32bits(args[0].(float32))
}

func ext۰math۰Min(fr *frame, args []value) value {
	if isSymF(args[0]) || isSymF(args[1]) {
		return fpMinMax(args[0], args[1], false)
	}
	return math.Min(args[0].(float64), args[1].(float64))
}

func ext۰math۰Max(fr *frame, args []value) value {
	if isSymF(args[0]) || isSymF(args[1]) {
		return fpMinMax(args[0], args[1], true)
	}
	return math.Max(args[0].(float64), args[1].(float64))
}

// fpMinMax follows Go's math.Max/Min: NaN if either is NaN, signed zeros ordered, else the larger/smaller.
func fpMinMax(x, y value, max bool) value {
	a, b := E.fpTerm(x, 64), E.fpTerm(y, 64)
	cmp, zeroPick := "fp.lt", "fp.isNegative"
	if max {
		cmp, zeroPick = "fp.gt", "fp.isPositive"
	}
	nan := "(_ NaN 11 53)"
	t := "(ite (or (fp.isNaN " + a + ") (fp.isNaN " + b + ")) " + nan +
		" (ite (and (fp.isZero " + a + ") (fp.isZero " + b + ")) (ite (" + zeroPick + " " + a + ") " + a + " " + b + ")" +
		" (ite (" + cmp + " " + a + " " + b + ") " + a + " " + b + ")))"
	return E.mkf(64, t)
}

func ext۰math۰NaN(fr *frame, args []value) value {
	return math.NaN()
}

func ext۰math۰IsNaN(fr *frame, args []value) value {
	if f, ok := args[0].(symf); ok {
		return E.mk(0, "(fp.isNaN "+f.name+")")
	}
	return math.IsNaN(args[0].(float64))
}

func ext۰math۰IsInf(fr *frame, args []value) value {
	sign := args[1].(int)
	if f, ok := args[0].(symf); ok {
		switch {
		case sign > 0:
			return E.mk(0, "(and (fp.isInfinite "+f.name+") (fp.isPositive "+f.name+"))")
		case sign < 0:
			return E.mk(0, "(and (fp.isInfinite "+f.name+") (fp.isNegative "+f.name+"))")
		}
		return E.mk(0, "(fp.isInfinite "+f.name+")")
	}
	return math.IsInf(args[0].(float64), sign)
}

func ext۰math۰Inf(fr *frame, args []value) value {
	return math.Inf(args[0].(int))
}

func ext۰math۰Ldexp(fr *frame, args []value) value {
	return math.Ldexp(args[0].(float64), args[1].(int))
}

func ext۰math۰Log(fr *frame, args []value) value {
	return math.Log(args[0].(float64))
}

func ext۰math۰Sqrt(fr *frame, args []value) value {
	return math.Sqrt(args[0].(float64))
}

func ext۰runtime۰Breakpoint(fr *frame, args []value) value {
	runtime.Breakpoint()
	return nil
}

func ext۰sort۰Ints(fr *frame, args []value) value {
	x := args[0].([]value)
	sort.Slice(x, func(i, j int) bool {
		return x[i].(int) < x[j].(int)
	})
	return nil
}
func ext۰sort۰Strings(fr *frame, args []value) value {
	x := args[0].([]value)
	sort.Slice(x, func(i, j int) bool {
		return x[i].(string) < x[j].(string)
	})
	return nil
}
func ext۰sort۰Float64s(fr *frame, args []value) value {
	x := args[0].([]value)
	sort.Slice(x, func(i, j int) bool {
		return x[i].(float64) < x[j].(float64)
	})
	return nil
}

func ext۰strconv۰Atoi(fr *frame, args []value) value {
	i, e := strconv.Atoi(args[0].(string))
	if e != nil {
		return tuple{i, iface{fr.i.runtimeErrorString, e.Error()}}
	}
	return tuple{i, iface{}}
}
func ext۰strconv۰Itoa(fr *frame, args []value) value {
	return strconv.Itoa(args[0].(int))
}
func ext۰strconv۰FormatFloat(fr *frame, args []value) value {
	return strconv.FormatFloat(args[0].(float64), args[1].(byte), args[2].(int), args[3].(int))
}

func ext۰strings۰Count(fr *frame, args []value) value {
	return strings.Count(args[0].(string), args[1].(string))
}

func ext۰strings۰EqualFold(fr *frame, args []value) value {
	return strings.EqualFold(args[0].(string), args[1].(string))
}
func ext۰strings۰IndexByte(fr *frame, args []value) value {
	return strings.IndexByte(args[0].(string), args[1].(byte))
}

func ext۰strings۰Index(fr *frame, args []value) value {
	return strings.Index(args[0].(string), args[1].(string))
}

func ext۰strings۰Replace(fr *frame, args []value) value {
	// func Replace(s, old, new string, n int) string
	s := args[0].(string)
	new := args[1].(string)
	old := args[2].(string)
	n := args[3].(int)
	return strings.Replace(s, old, new, n)
}

func ext۰strings۰ToLower(fr *frame, args []value) value {
	return strings.ToLower(args[0].(string))
}

func ext۰runtime۰GOMAXPROCS(fr *frame, args []value) value {
	// Ignore args[0]; don't let the interpreted program
	// set the interpreter's GOMAXPROCS!
	return runtime.GOMAXPROCS(0)
}

func ext۰runtime۰Goexit(fr *frame, args []value) value {
	// TODO(adonovan): don't kill the interpreter's main goroutine.
	runtime.Goexit()
	return nil
}

func ext۰runtime۰GOROOT(fr *frame, args []value) value {
	return runtime.GOROOT()
}

func ext۰runtime۰GC(fr *frame, args []value) value {
	// the target asking for a collection is not the subject; a real collection of the engine's heap
	// (the whole SSA program) costs ~100 ms
	return nil
}

func ext۰runtime۰Gosched(fr *frame, args []value) value {
	runtime.Gosched()
	return nil
}

func ext۰runtime۰NumCPU(fr *frame, args []value) value {
	return runtime.NumCPU()
}

func ext۰time۰Sleep(fr *frame, args []value) value {
	time.Sleep(time.Duration(args[0].(int64)))
	return nil
}

func ext۰os۰Getenv(fr *frame, args []value) value {
	name := args[0].(string)
	switch name {
	case "GOSSAINTERP":
		return "1"
	}
	return os.Getenv(name)
}

func ext۰os۰Exit(fr *frame, args []value) value {
	panic(exitPanic(args[0].(int)))
}

func ext۰unicode۰utf8۰DecodeRuneInString(fr *frame, args []value) value {
	r, n := utf8.DecodeRuneInString(args[0].(string))
	return tuple{r, n}
}

// A fake function for turning an arbitrary value into a string.
// Handles only the cases needed by the tests.
// Uses same logic as 'print' built-in.
func ext۰fmt۰Sprint(fr *frame, args []value) value {
	buf := new(bytes.Buffer)
	wasStr := false
	for i, arg := range args[0].([]value) {
		x := arg.(iface).v
		_, isStr := x.(string)
		if i > 0 && !wasStr && !isStr {
			buf.WriteByte(' ')
		}
		wasStr = isStr
		buf.WriteString(toString(x))
	}
	return buf.String()
}
