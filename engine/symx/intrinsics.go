package symx

// Engine-side intrinsics: the gosym harness API, environment stubs (time, atomics, sync, xsync,
// rand), and summaries of stdlib leaves that cannot or should not be interpreted (DESIGN 3.2/3.3).

import (
	"fmt"
	"go/token"
	"go/types"
	"os"
	"strconv"
	"strings"
	"unicode/utf8"

	"golang.org/x/tools/go/ssa"
)

const gosymPkg = "github.com/thushan/olla/internal/zzverif/gosym."

var tInt64 = types.Typ[types.Int64]
var tInt = types.Typ[types.Int]
var tUint64 = types.Typ[types.Uint64]
var tBool = types.Typ[types.Bool]

func bytesOfConcrete(v []value) []byte {
	b := make([]byte, len(v))
	for i := range v {
		c, ok := v[i].(byte)
		if !ok {
			panic(infraError{"symbolic bytes where concrete bytes are required"})
		}
		b[i] = c
	}
	return b
}

func concreteString(v value) string {
	switch v := v.(type) {
	case string:
		return v
	case symstr:
		panic(infraError{"symbolic string where a concrete string is required"})
	}
	panic(infraError{fmt.Sprintf("concreteString %T", v)})
}

func valuesOfBytes(b []byte) []value {
	r := make([]value, len(b))
	for i := range b {
		r[i] = b[i]
	}
	return r
}

func lookupExternal(fn *ssa.Function, name string) externalFn {
	if ext := externals[name]; ext != nil {
		return ext
	}
	if debug && strings.Contains(name, "xsync") {
		fmt.Fprintln(os.Stderr, "XSYNC CALL:", name)
	}
	// generic instantiations: match on prefix + method name up to '['
	if strings.HasPrefix(name, "(*github.com/puzpuzpuz/xsync/v4.Map[") {
		i := strings.Index(name, "]).")
		m := name[i+3:]
		if j := strings.IndexByte(m, '['); j >= 0 {
			m = m[:j]
		}
		if f := xsyncMethods[m]; f != nil {
			return f
		}
		panic(infraError{"xsync.Map method without model: " + m})
	}
	if strings.HasPrefix(name, "github.com/puzpuzpuz/xsync/v4.NewMap[") {
		return func(fr *frame, a []value) value {
			var cell value = &xmap{}
			return &cell
		}
	}
	if strings.HasPrefix(name, "(*sync/atomic.Pointer[") {
		i := strings.LastIndex(name, "]).")
		m := name[i+3:]
		if j := strings.IndexByte(m, '['); j >= 0 {
			m = m[:j]
		}
		return atomicPointerMethods[m]
	}
	if strings.HasPrefix(name, "slices.Sort") || strings.HasPrefix(name, "slices.pdqsort") {
		// slices.Sort[...] : interpret (plain Go, generic)
		return nil
	}
	return nil
}

// ---------------------------------------------------------------- xsync.Map model

type xmap struct {
	m omap
}

func xmapOf(recv value) *xmap {
	p := recv.(*value)
	if m, ok := (*p).(*xmap); ok {
		return m
	}
	// a zero xsync.Map struct (never constructed through NewMap): adopt a model in place
	m := &xmap{}
	*p = m
	return m
}

func xmapInit(m *xmap, fr *frame) {
	if m.m.idx == nil {
		m.m.idx = map[value]int{}
		// key type from the receiver's type arguments
		if ta := fr.fn.TypeArgs(); len(ta) > 0 {
			m.m.keyType = ta[0]
		} else if recv := fr.fn.Signature.Recv(); recv != nil {
			if n, ok := recv.Type().(*types.Pointer); ok {
				if nn, ok := n.Elem().(*types.Named); ok && nn.TypeArgs().Len() > 0 {
					m.m.keyType = nn.TypeArgs().At(0)
				}
			}
		}
		if m.m.keyType == nil {
			m.m.keyType = types.Typ[types.String]
		}
	}
}

var xsyncMethods map[string]externalFn
var atomicPointerMethods map[string]externalFn

func init() {
	get := func(fr *frame, a []value) *xmap {
		m := xmapOf(a[0])
		xmapInit(m, fr)
		E.yield(false)
		return m
	}
	xsyncMethods = map[string]externalFn{
		"Load": func(fr *frame, a []value) value {
			m := get(fr, a)
			if v, ok := m.m.lookup(a[1]); ok {
				return tuple{v, true}
			}
			return tuple{zero(fr.fn.Signature.Results().At(0).Type()), false}
		},
		"Store": func(fr *frame, a []value) value {
			m := get(fr, a)
			m.m.insert(a[1], a[2])
			return nil
		},
		"Delete": func(fr *frame, a []value) value {
			m := get(fr, a)
			m.m.delete(a[1])
			return nil
		},
		"LoadAndDelete": func(fr *frame, a []value) value {
			m := get(fr, a)
			if v, ok := m.m.lookup(a[1]); ok {
				m.m.delete(a[1])
				return tuple{v, true}
			}
			return tuple{zero(fr.fn.Signature.Results().At(0).Type()), false}
		},
		"LoadOrStore": func(fr *frame, a []value) value {
			m := get(fr, a)
			if v, ok := m.m.lookup(a[1]); ok {
				return tuple{v, true}
			}
			m.m.insert(a[1], a[2])
			return tuple{a[2], false}
		},
		"LoadAndStore": func(fr *frame, a []value) value {
			m := get(fr, a)
			old, ok := m.m.lookup(a[1])
			m.m.insert(a[1], a[2])
			if ok {
				return tuple{old, true}
			}
			return tuple{a[2], false}
		},
		"LoadOrCompute": func(fr *frame, a []value) value {
			m := get(fr, a)
			if v, ok := m.m.lookup(a[1]); ok {
				return tuple{v, true}
			}
			r := call(fr.i, fr, token.NoPos, a[2], nil).(tuple)
			if b, ok := r[1].(bool); ok && b { // cancel
				return tuple{zero(fr.fn.Signature.Results().At(0).Type()), false}
			}
			m.m.insert(a[1], r[0])
			return tuple{r[0], false}
		},
		"Compute": func(fr *frame, a []value) value {
			// Compute(key, func(old V, loaded bool) (newV V, op ComputeOp)) (actual V, ok bool)
			m := get(fr, a)
			old, ok := m.m.lookup(a[1])
			if !ok {
				old = zero(fr.fn.Signature.Results().At(0).Type())
			}
			r := call(fr.i, fr, token.NoPos, a[2], []value{old, ok}).(tuple)
			op := asInt64(r[1])
			switch op {
			case 0: // CancelOp
				return tuple{old, ok}
			case 1: // UpdateOp
				m.m.insert(a[1], r[0])
				return tuple{r[0], true}
			default: // DeleteOp
				m.m.delete(a[1])
				return tuple{old, false}
			}
		},
		"Range": func(fr *frame, a []value) value {
			m := get(fr, a)
			ks := append([]value{}, m.m.keys...)
			vs := append([]value{}, m.m.vals...)
			for i := range ks {
				if !E.truth(call(fr.i, fr, token.NoPos, a[1], []value{ks[i], vs[i]})) {
					break
				}
			}
			return nil
		},
		"Clear": func(fr *frame, a []value) value {
			m := get(fr, a)
			m.m.clear()
			return nil
		},
		"Size": func(fr *frame, a []value) value {
			m := get(fr, a)
			return m.m.len()
		},
	}
	atomicPointerMethods = map[string]externalFn{
		"Load": func(fr *frame, a []value) value {
			E.yield(false)
			p := a[0].(*value)
			s := (*p).(structure)
			if v, ok := s[len(s)-1].(*value); ok {
				return v
			}
			return (*value)(nil)
		},
		"Store": func(fr *frame, a []value) value {
			E.yield(false)
			p := a[0].(*value)
			s := (*p).(structure)
			s[len(s)-1] = a[1]
			return nil
		},
		"Swap": func(fr *frame, a []value) value {
			E.yield(false)
			p := a[0].(*value)
			s := (*p).(structure)
			old, _ := s[len(s)-1].(*value)
			s[len(s)-1] = a[1]
			return old
		},
		"CompareAndSwap": func(fr *frame, a []value) value {
			E.yield(false)
			p := a[0].(*value)
			s := (*p).(structure)
			old, _ := s[len(s)-1].(*value)
			if old == a[1].(*value) {
				s[len(s)-1] = a[2]
				return true
			}
			return false
		},
	}
}

// ---------------------------------------------------------------- time model

func timeVal(ns value) value { return structure{uint64(0), ns, (*value)(nil)} }
func timeNS(t value) value {
	s := t.(structure)
	if w, ok := s[0].(uint64); ok && w != 0 {
		panic(infraError{"time.Time with wall bits reached the time model"})
	}
	return s[1]
}

func (e *Engine) now() value {
	if e.clock == nil && e.Params["CLOCK_CONCRETE"] == 1 {
		// the harness declares time irrelevant to its obligations: a fixed instant, no forks on time
		e.clock = int64(1) << 41
		e.api = append(e.api, APIEvent{Kind: "clock0", Name: "t0", Bits: 64, terms: []string{bvconst(1<<41, 64)}})
	}
	if e.clock == nil {
		t0 := e.fresh("t0", 64)
		// 2^40 ns (~18 min) < t0 < 2^61
		e.Assume(e.symBinop(token.GTR, tInt64, t0, int64(1)<<40))
		e.Assume(e.symBinop(token.LSS, tInt64, t0, int64(1)<<61))
		e.clock = t0
		e.api = append(e.api, APIEvent{Kind: "clock0", Name: "t0", Bits: 64, terms: []string{t0.name}})
	}
	return e.clock
}

func (e *Engine) apiScalar(kind, name string, bits int) sym {
	s := e.fresh(name, bits)
	e.api = append(e.api, APIEvent{Kind: kind, Name: name, Bits: bits, terms: []string{s.name}})
	return s
}

func (e *Engine) truth(v value) bool {
	if b, ok := v.(bool); ok {
		return b
	}
	return e.Branch(v.(sym))
}

func boolAnd(vals []value) value {
	var terms []string
	for _, v := range vals {
		switch v := v.(type) {
		case bool:
			if !v {
				return false
			}
		case sym:
			terms = append(terms, v.name)
		}
	}
	if len(terms) == 0 {
		return true
	}
	if len(terms) == 1 {
		return sym{terms[0], 0}
	}
	return E.mk(0, "(and "+strings.Join(terms, " ")+")")
}

func boolOr(vals []value) value {
	var terms []string
	for _, v := range vals {
		switch v := v.(type) {
		case bool:
			if v {
				return true
			}
		case sym:
			terms = append(terms, v.name)
		}
	}
	if len(terms) == 0 {
		return false
	}
	if len(terms) == 1 {
		return sym{terms[0], 0}
	}
	return E.mk(0, "(or "+strings.Join(terms, " ")+")")
}

func boolNot(v value) value {
	if b, ok := v.(bool); ok {
		return !b
	}
	return E.mk(0, fmt.Sprintf("(not %s)", v.(sym).name))
}

func init() {
	ex := externals
	g := func(name string, f externalFn) { ex[gosymPkg+name] = f }

	// ------------------------------------------------------------ gosym API
	g("Param", func(fr *frame, a []value) value {
		v, ok := E.Params[a[0].(string)]
		if !ok {
			panic(infraError{"harness asks for undefined parameter " + a[0].(string)})
		}
		return v
	})
	g("Symbolic", func(fr *frame, a []value) value { return true })
	g("RepoRoot", func(fr *frame, a []value) value { return "/repo" })
	g("Int64", func(fr *frame, a []value) value { return E.apiScalar("int", a[0].(string), 64) })
	g("Uint64", func(fr *frame, a []value) value { return E.apiScalar("uint", a[0].(string), 64) })
	g("Int", func(fr *frame, a []value) value { return E.apiScalar("int", a[0].(string), 64) })
	g("Int32", func(fr *frame, a []value) value { return E.apiScalar("int", a[0].(string), 32) })
	g("Byte", func(fr *frame, a []value) value { return E.apiScalar("uint", a[0].(string), 8) })
	g("Bool", func(fr *frame, a []value) value { return E.apiScalar("bool", a[0].(string), 0) })
	g("Float64", func(fr *frame, a []value) value {
		// every bit pattern (NaNs, infinities, subnormals): a 64-bit vector reinterpreted as IEEE double
		b := E.fresh(a[0].(string), 64)
		E.api = append(E.api, APIEvent{Kind: "f64", Name: a[0].(string), Bits: 64, terms: []string{b.name}})
		return E.mkf(64, fmt.Sprintf("((_ to_fp 11 53) %s)", b.name))
	})
	g("IntRange", func(fr *frame, a []value) value {
		s := E.apiScalar("int", a[0].(string), 64)
		E.Assume(E.symBinop(token.GEQ, tInt, s, a[1]))
		E.Assume(E.symBinop(token.LEQ, tInt, s, a[2]))
		return s
	})
	g("Choice", func(fr *frame, a []value) value {
		n := a[1].(int)
		if n <= 0 {
			panic(infraError{"gosym.Choice with n <= 0"})
		}
		c := E.decide(make([]string, n))
		E.api = append(E.api, APIEvent{Kind: "choice", Name: a[0].(string), Val: strconv.Itoa(c)})
		return c
	})
	g("String", func(fr *frame, a []value) value {
		n := a[1].(int)
		el := make([]value, n)
		ev := APIEvent{Kind: "str", Name: a[0].(string)}
		for i := range el {
			s := E.fresh(fmt.Sprintf("%s_%d", a[0].(string), i), 8)
			el[i] = s
			ev.terms = append(ev.terms, s.name)
		}
		E.api = append(E.api, ev)
		return mkstr(el)
	})
	g("Bytes", func(fr *frame, a []value) value {
		n := a[1].(int)
		el := make([]value, n)
		ev := APIEvent{Kind: "bytes", Name: a[0].(string)}
		for i := range el {
			s := E.fresh(fmt.Sprintf("%s_%d", a[0].(string), i), 8)
			el[i] = s
			ev.terms = append(ev.terms, s.name)
		}
		E.api = append(E.api, ev)
		return el
	})
	g("Assume", func(fr *frame, a []value) value { E.Assume(a[0]); return nil })
	g("Assert", func(fr *frame, a []value) value { E.Assert(a[0], a[1].(string), "", nil); return nil })
	g("AssertKF", func(fr *frame, a []value) value {
		E.Assert(a[0], a[1].(string), a[2].(string), a[3])
		return nil
	})
	g("Reach", func(fr *frame, a []value) value {
		E.Reached[a[0].(string)]++
		E.reachedNow = append(E.reachedNow, a[0].(string))
		return nil
	})
	g("Expect", func(fr *frame, a []value) value {
		l := a[0].(string)
		if _, ok := E.Expected[l]; !ok {
			if len(E.pc) > 0 && E.z.check(E.pc) != "sat" {
				panic(infraError{"Expect on an infeasible path"})
			}
			if len(E.pc) == 0 {
				E.z.check(nil)
			}
			E.Expected[l] = E.concretiseAPI()
		}
		return nil
	})
	g("Observe", func(fr *frame, a []value) value {
		v := a[1]
		if i, ok := v.(iface); ok {
			v = i.v
		}
		E.observes = append(E.observes, Observation{Name: a[0].(string), term: v})
		return nil
	})
	g("And", func(fr *frame, a []value) value { return boolAnd(a[0].([]value)) })
	g("Or", func(fr *frame, a []value) value { return boolOr(a[0].([]value)) })
	g("Not", func(fr *frame, a []value) value { return boolNot(a[0]) })
	g("Implies", func(fr *frame, a []value) value { return boolOr([]value{boolNot(a[0]), a[1]}) })
	g("Now", func(fr *frame, a []value) value { return E.now() })
	g("Advance", func(fr *frame, a []value) value {
		E.now() // the clock origin is drawn first (same order as the native runtime)
		d := E.fresh(a[0].(string), 64)
		E.api = append(E.api, APIEvent{Kind: "adv", Name: a[0].(string), Bits: 64, terms: []string{d.name}})
		E.Assume(E.symBinop(token.GEQ, tInt64, d, int64(0)))
		E.Assume(E.symBinop(token.LSS, tInt64, d, int64(1)<<58))
		E.clock = E.symBinop(token.ADD, tInt64, E.now(), d)
		return d
	})
	g("AdvanceBy", func(fr *frame, a []value) value {
		E.clock = binop(token.ADD, tInt64, E.now(), a[0])
		return nil
	})
	g("TimeNow", func(fr *frame, a []value) value { return timeVal(E.now()) })
	g("TimeSince", func(fr *frame, a []value) value { return binop(token.SUB, tInt64, E.now(), timeNS(a[0])) })
	g("RunPending", func(fr *frame, a []value) value { E.drain(); return nil })
	g("Yield", func(fr *frame, a []value) value { E.yield(true); return nil })
	g("Unfinished", func(fr *frame, a []value) value { return E.blockedGoroutines() })
	g("OnHang", func(fr *frame, a []value) value {
		E.hangKF = a[0].(string)
		b, ok := a[1].(bool)
		E.hangRegion = ok && b
		return nil
	})
	g("GoroutinesSettled", func(fr *frame, a []value) value { return E.settle() })
	g("VirtualNow", func(fr *frame, a []value) value { return E.desNow })
	g("NewTimerChan", func(fr *frame, a []value) value {
		return &xchan{timer: true, ctxDone: true, never: E.Params["TIMERS_FIRE"] != 1}
	})
	g("NewDeadlineChan", func(fr *frame, a []value) value {
		if E.Params["TIMERS_DES"] == 1 {
			return E.newDESTimer(a[0], true)
		}
		return &xchan{timer: true, ctxDone: true, never: E.Params["TIMERS_FIRE"] != 1}
	})
	g("ChanClosed", func(fr *frame, a []value) value { return a[0].(*xchan).closed })
	redirect := func(name string) externalFn {
		return func(fr *frame, a []value) value {
			pkg := fr.i.prog.ImportedPackage("github.com/thushan/olla/internal/zzverif/gosym")
			return call(fr.i, fr, token.NoPos, pkg.Func(name), a)
		}
	}
	ex["context.WithCancel"] = redirect("ModelWithCancel")
	ex["context.WithTimeout"] = redirect("ModelWithTimeout")
	ex["context.WithDeadline"] = redirect("ModelWithDeadline")

	// ------------------------------------------------------------ time
	ex["time.Now"] = func(fr *frame, a []value) value { return timeVal(E.now()) }
	ex["(time.Time).UnixNano"] = func(fr *frame, a []value) value { return timeNS(a[0]) }
	ex["(time.Time).Unix"] = func(fr *frame, a []value) value { return binop(token.QUO, tInt64, timeNS(a[0]), int64(1e9)) }
	ex["(time.Time).UnixMilli"] = func(fr *frame, a []value) value { return binop(token.QUO, tInt64, timeNS(a[0]), int64(1e6)) }
	ex["time.Unix"] = func(fr *frame, a []value) value {
		s := binop(token.MUL, tInt64, a[0], int64(1e9))
		return timeVal(binop(token.ADD, tInt64, s, a[1]))
	}
	ex["(time.Time).Add"] = func(fr *frame, a []value) value { return timeVal(binop(token.ADD, tInt64, timeNS(a[0]), a[1])) }
	ex["(time.Time).Sub"] = func(fr *frame, a []value) value { return binop(token.SUB, tInt64, timeNS(a[0]), timeNS(a[1])) }
	ex["(time.Time).Before"] = func(fr *frame, a []value) value { return binop(token.LSS, tInt64, timeNS(a[0]), timeNS(a[1])) }
	ex["(time.Time).After"] = func(fr *frame, a []value) value { return binop(token.GTR, tInt64, timeNS(a[0]), timeNS(a[1])) }
	ex["(time.Time).Equal"] = func(fr *frame, a []value) value { return binop(token.EQL, tInt64, timeNS(a[0]), timeNS(a[1])) }
	ex["(time.Time).IsZero"] = func(fr *frame, a []value) value { return binop(token.EQL, tInt64, timeNS(a[0]), int64(0)) }
	ex["(time.Time).UTC"] = func(fr *frame, a []value) value { return a[0] }
	ex["(time.Time).Local"] = func(fr *frame, a []value) value { return a[0] }
	ex["(time.Time).Round"] = func(fr *frame, a []value) value { return a[0] }
	ex["(time.Time).Truncate"] = func(fr *frame, a []value) value { return a[0] }
	ex["time.Since"] = func(fr *frame, a []value) value { return binop(token.SUB, tInt64, E.now(), timeNS(a[0])) }
	ex["time.Until"] = func(fr *frame, a []value) value { return binop(token.SUB, tInt64, timeNS(a[0]), E.now()) }
	ex["time.runtimeNano"] = func(fr *frame, a []value) value { return int64(1) }
	ex["(time.Time).Format"] = func(fr *frame, a []value) value { return "<time>" }
	ex["(time.Time).String"] = func(fr *frame, a []value) value { return "<time>" }
	ex["(time.Duration).String"] = func(fr *frame, a []value) value {
		if d, ok := a[0].(int64); ok {
			return fmtDuration(d)
		}
		return "<duration>"
	}
	ex["(time.Duration).Seconds"] = func(fr *frame, a []value) value {
		if d, ok := a[0].(int64); ok {
			return float64(d) / 1e9
		}
		E.Stubs["Duration.Seconds of symbolic duration (opaque 0.0)"]++
		return float64(0)
	}
	des := func() bool { return E.Params["TIMERS_DES"] == 1 }
	ex["time.Sleep"] = func(fr *frame, a []value) value {
		if des() {
			// discrete-event sleep: block until the virtual clock reaches the deadline
			t := E.newDESTimer(a[0], false)
			E.block("sleep", func() bool { return t.fired })
			return nil
		}
		E.clock = binop(token.ADD, tInt64, E.now(), a[0])
		E.yield(false)
		return nil
	}
	ex["time.After"] = func(fr *frame, a []value) value {
		if des() {
			return E.newDESTimer(a[0], false)
		}
		return &xchan{cap: 1, timer: true, never: E.Params["TIMERS_FIRE"] != 1}
	}
	ex["time.AfterFunc"] = func(fr *frame, a []value) value {
		var ch *xchan
		if des() {
			ch = E.newDESTimer(a[0], false)
			ch.cap = 0
			fn := a[1]
			i := fr.i
			ch.onFire = func() { spawnGoroutine(i, token.NoPos, fn, nil) }
		} else {
			ch = &xchan{cap: 1, timer: true, never: true}
			E.Stubs["time.AfterFunc outside TIMERS_DES: never fires"]++
		}
		var cell value = structure{ch, false}
		return &cell
	}
	ex["time.NewTimer"] = func(fr *frame, a []value) value {
		var ch *xchan
		if des() {
			ch = E.newDESTimer(a[0], false)
		} else {
			ch = &xchan{cap: 1, timer: true, never: E.Params["TIMERS_FIRE"] != 1}
		}
		var cell value = structure{ch, false}
		return &cell
	}
	ex["(*time.Timer).Stop"] = func(fr *frame, a []value) value {
		s := (*(a[0].(*value))).(structure)
		ch := s[0].(*xchan)
		if ch.des {
			// Go >= 1.23 timer semantics: after Stop no stale value is left in the channel
			active := !ch.never && !ch.fired
			ch.never = true
			ch.buf = nil
			return active
		}
		ch.never = true
		return true
	}
	ex["(*time.Timer).Reset"] = func(fr *frame, a []value) value {
		s := (*(a[0].(*value))).(structure)
		ch := s[0].(*xchan)
		if ch.des {
			d, ok := a[1].(int64)
			if !ok {
				panic(infraError{"TIMERS_DES needs concrete timer durations"})
			}
			active := !ch.never && !ch.fired
			ch.never, ch.fired, ch.buf = false, false, nil
			ch.deadline = E.desNow + d
			return active
		}
		ch.never = E.Params["TIMERS_FIRE"] != 1
		return true
	}
	ex["time.NewTicker"] = func(fr *frame, a []value) value {
		var cell value = structure{&xchan{cap: 1, timer: true, never: true}, false}
		return &cell
	}
	ex["(*time.Ticker).Stop"] = func(fr *frame, a []value) value { return nil }
	ex["(*time.Ticker).Reset"] = func(fr *frame, a []value) value { return nil }

	// ------------------------------------------------------------ sync/atomic functions
	ld := func(fr *frame, a []value) value { E.yield(false); return *(a[0].(*value)) }
	st := func(fr *frame, a []value) value { E.yield(false); *(a[0].(*value)) = a[1]; return nil }
	for _, k := range []string{"Int32", "Int64", "Uint32", "Uint64", "Uintptr"} {
		var t types.Type
		switch k {
		case "Int32":
			t = types.Typ[types.Int32]
		case "Int64":
			t = types.Typ[types.Int64]
		case "Uint32":
			t = types.Typ[types.Uint32]
		case "Uintptr":
			t = types.Typ[types.Uintptr]
		default:
			t = types.Typ[types.Uint64]
		}
		ex["sync/atomic.Load"+k] = ld
		ex["sync/atomic.Store"+k] = st
		ex["sync/atomic.Add"+k] = func(fr *frame, a []value) value {
			E.yield(false)
			p := a[0].(*value)
			*p = binop(token.ADD, t, *p, a[1])
			return *p
		}
		ex["sync/atomic.Swap"+k] = func(fr *frame, a []value) value {
			E.yield(false)
			p := a[0].(*value)
			old := *p
			*p = a[1]
			return old
		}
		ex["sync/atomic.CompareAndSwap"+k] = func(fr *frame, a []value) value {
			E.yield(false)
			p := a[0].(*value)
			if equals(t, *p, a[1]) {
				*p = a[2]
				return true
			}
			return false
		}
		ex["sync/atomic.And"+k] = func(fr *frame, a []value) value {
			E.yield(false)
			p := a[0].(*value)
			old := *p
			*p = binop(token.AND, t, *p, a[1])
			return old
		}
		ex["sync/atomic.Or"+k] = func(fr *frame, a []value) value {
			E.yield(false)
			p := a[0].(*value)
			old := *p
			*p = binop(token.OR, t, *p, a[1])
			return old
		}
	}
	// atomic.Value: struct{ v any }
	ex["(*sync/atomic.Value).Load"] = func(fr *frame, a []value) value {
		E.yield(false)
		return (*(a[0].(*value))).(structure)[0]
	}
	ex["(*sync/atomic.Value).Store"] = func(fr *frame, a []value) value {
		E.yield(false)
		(*(a[0].(*value))).(structure)[0] = a[1]
		return nil
	}
	ex["(*sync/atomic.Value).Swap"] = func(fr *frame, a []value) value {
		E.yield(false)
		s := (*(a[0].(*value))).(structure)
		old := s[0]
		s[0] = a[1]
		return old
	}
	ex["(*sync/atomic.Value).CompareAndSwap"] = func(fr *frame, a []value) value {
		E.yield(false)
		s := (*(a[0].(*value))).(structure)
		o, n := s[0].(iface), a[1].(iface)
		if o.t == nil && n.t == nil || o.t != nil && n.t != nil && types.Identical(o.t, n.t) && equals(o.t, o.v, n.v) {
			s[0] = a[2]
			return true
		}
		return false
	}

	// ------------------------------------------------------------ sync
	// Mutex{state int32, sema uint32}: state field 0 is the lock flag.  go1.24: Mutex{_ noCopy; mu isync.Mutex}
	mutexState := func(p *value) *value {
		// find first int32 field
		var find func(s structure) *value
		find = func(s structure) *value {
			for i := range s {
				switch f := s[i].(type) {
				case int32:
					return &s[i]
				case structure:
					if r := find(f); r != nil {
						return r
					}
				}
			}
			return nil
		}
		r := find((*p).(structure))
		if r == nil {
			panic(infraError{"mutex layout not understood"})
		}
		return r
	}
	ex["(*sync.Mutex).Lock"] = func(fr *frame, a []value) value {
		st := mutexState(a[0].(*value))
		g := E.cur
		g.wouldBlock = func() bool { return (*st).(int32) != 0 }
		E.yield(false)
		g.wouldBlock = nil
		E.block("Mutex.Lock", func() bool { return (*st).(int32) == 0 })
		*st = int32(1)
		E.cur.held++
		return nil
	}
	ex["(*sync.Mutex).TryLock"] = func(fr *frame, a []value) value {
		st := mutexState(a[0].(*value))
		E.yield(false)
		if (*st).(int32) == 0 {
			*st = int32(1)
			return true
		}
		return false
	}
	ex["(*sync.Mutex).Unlock"] = func(fr *frame, a []value) value {
		st := mutexState(a[0].(*value))
		if (*st).(int32) == 0 {
			panic(targetPanic{iface{fr.i.runtimeErrorString, "sync: unlock of unlocked mutex"}})
		}
		*st = int32(0)
		if E.cur.held > 0 {
			E.cur.held--
		}
		E.yield(false)
		return nil
	}
	// RWMutex: writer flag in w (Mutex) state; reader count kept in side table
	ex["(*sync.RWMutex).Lock"] = func(fr *frame, a []value) value {
		p := a[0].(*value)
		st := mutexState(p)
		g := E.cur
		g.wouldBlock = func() bool { return (*st).(int32) != 0 || E.rwReaders[p] != 0 }
		E.yield(false)
		g.wouldBlock = nil
		E.block("RWMutex.Lock", func() bool { return (*st).(int32) == 0 && E.rwReaders[p] == 0 })
		*st = int32(1)
		E.cur.held++
		return nil
	}
	ex["(*sync.RWMutex).Unlock"] = func(fr *frame, a []value) value {
		st := mutexState(a[0].(*value))
		if (*st).(int32) == 0 {
			panic(targetPanic{iface{fr.i.runtimeErrorString, "sync: Unlock of unlocked RWMutex"}})
		}
		*st = int32(0)
		if E.cur.held > 0 {
			E.cur.held--
		}
		E.yield(false)
		return nil
	}
	ex["(*sync.RWMutex).RLock"] = func(fr *frame, a []value) value {
		p := a[0].(*value)
		st := mutexState(p)
		g := E.cur
		g.wouldBlock = func() bool { return (*st).(int32) != 0 }
		E.yield(false)
		g.wouldBlock = nil
		E.block("RWMutex.RLock", func() bool { return (*st).(int32) == 0 })
		E.rwReaders[p]++
		return nil
	}
	ex["(*sync.RWMutex).RUnlock"] = func(fr *frame, a []value) value {
		p := a[0].(*value)
		if E.rwReaders[p] == 0 {
			panic(targetPanic{iface{fr.i.runtimeErrorString, "sync: RUnlock of unlocked RWMutex"}})
		}
		E.rwReaders[p]--
		E.yield(false)
		return nil
	}
	ex["(*sync.WaitGroup).Add"] = func(fr *frame, a []value) value {
		p := a[0].(*value)
		E.wgCount[p] += int(asInt64(a[1]))
		if E.wgCount[p] < 0 {
			panic(targetPanic{iface{fr.i.runtimeErrorString, "sync: negative WaitGroup counter"}})
		}
		return nil
	}
	ex["(*sync.WaitGroup).Done"] = func(fr *frame, a []value) value {
		p := a[0].(*value)
		E.wgCount[p]--
		if E.wgCount[p] < 0 {
			panic(targetPanic{iface{fr.i.runtimeErrorString, "sync: negative WaitGroup counter"}})
		}
		return nil
	}
	ex["(*sync.WaitGroup).Wait"] = func(fr *frame, a []value) value {
		p := a[0].(*value)
		E.yield(false)
		E.block("WaitGroup.Wait", func() bool { return E.wgCount[p] == 0 })
		return nil
	}
	ex["(*sync.WaitGroup).Go"] = func(fr *frame, a []value) value {
		p := a[0].(*value)
		E.wgCount[p]++
		f := a[1]
		wrapper := func() {
			call(fr.i, nil, token.NoPos, f, nil)
			E.wgCount[p]--
		}
		_ = wrapper
		panic(infraError{"WaitGroup.Go not modelled"})
	}
	ex["(*sync.Once).Do"] = func(fr *frame, a []value) value {
		p := a[0].(*value)
		if E.onceDone[p] {
			return nil
		}
		E.onceDone[p] = true
		call(fr.i, fr, token.NoPos, a[1], nil)
		return nil
	}
	ex["(*sync.Once).doSlow"] = ex["(*sync.Once).Do"]
	// sync.Pool: Get returns any object previously Put, or New() (DESIGN 3.2)
	ex["(*sync.Pool).Get"] = func(fr *frame, a []value) value {
		E.yield(false) // a synchronisation point: other goroutines may Put/Get in between
		p := a[0].(*value)
		items := E.pools[p]
		n := len(items)
		c := 0
		if n > 0 && E.Params["POOL_NONDET"] == 1 {
			c = E.envDecide(n + 1) // 0: most recently put (what a single-goroutine native run does) ... n: New()
		}
		if n > 0 && c < n {
			k := n - 1 - c
			v := items[k]
			E.pools[p] = append(append([]value{}, items[:k]...), items[k+1:]...)
			return v
		}
		s := (*p).(structure)
		newf := s[len(s)-1]
		if f, ok := newf.(*ssa.Function); ok && f == nil {
			return iface{}
		}
		if newf == nil {
			return iface{}
		}
		return call(fr.i, fr, token.NoPos, newf, nil)
	}
	ex["(*sync.Pool).Put"] = func(fr *frame, a []value) value {
		E.yield(false)
		p := a[0].(*value)
		if i, ok := a[1].(iface); ok && i.t == nil {
			return nil
		}
		E.pools[p] = append(E.pools[p], a[1])
		return nil
	}
	// sync.Map: modelled like xsync (engine map inside first field)
	syncMap := func(a []value) *omap {
		p := a[0].(*value)
		m := E.syncMaps[p]
		if m == nil {
			m = &omap{keyType: types.NewInterfaceType(nil, nil), idx: map[value]int{}}
			E.syncMaps[p] = m
		}
		E.yield(false)
		return m
	}
	ex["(*sync.Map).Load"] = func(fr *frame, a []value) value {
		m := syncMap(a)
		if v, ok := m.lookup(a[1]); ok {
			return tuple{v, true}
		}
		return tuple{iface{}, false}
	}
	ex["(*sync.Map).Store"] = func(fr *frame, a []value) value { syncMap(a).insert(a[1], a[2]); return nil }
	ex["(*sync.Map).Delete"] = func(fr *frame, a []value) value { syncMap(a).delete(a[1]); return nil }
	ex["(*sync.Map).LoadOrStore"] = func(fr *frame, a []value) value {
		m := syncMap(a)
		if v, ok := m.lookup(a[1]); ok {
			return tuple{v, true}
		}
		m.insert(a[1], a[2])
		return tuple{a[2], false}
	}
	ex["(*sync.Map).Range"] = func(fr *frame, a []value) value {
		m := syncMap(a)
		ks := append([]value{}, m.keys...)
		vs := append([]value{}, m.vals...)
		for i := range ks {
			if !E.truth(call(fr.i, fr, token.NoPos, a[1], []value{ks[i], vs[i]})) {
				break
			}
		}
		return nil
	}

	// ------------------------------------------------------------ rand
	ex["math/rand.Intn"] = func(fr *frame, a []value) value {
		if E.Params["RAND_CONCRETE"] == 1 {
			return 0 // the harness declares randomness irrelevant (request ids, jitter)
		}
		s := E.fresh("rand_intn", 64)
		E.Assume(E.symBinop(token.GEQ, tInt, s, 0))
		E.Assume(E.symBinop(token.LSS, tInt, s, a[0]))
		E.api = append(E.api, APIEvent{Kind: "env-rand", Name: "rand.Intn", Bits: 64, terms: []string{s.name}})
		E.envChoice = true
		return s
	}
	ex["math/rand/v2.IntN"] = ex["math/rand.Intn"]
	ex["math/rand.Float64"] = func(fr *frame, a []value) value {
		if E.Params["RAND_CONCRETE"] == 1 {
			return float64(0) // the harness declares randomness irrelevant
		}
		f := E.freshF("rand_float64", 64)
		E.Assume(E.fpBinop(token.GEQ, types.Typ[types.Float64], f, float64(0)))
		E.Assume(E.fpBinop(token.LSS, types.Typ[types.Float64], f, float64(1)))
		E.envChoice = true
		return f
	}
	ex["math/rand/v2.Float64"] = ex["math/rand.Float64"]

	// ------------------------------------------------------------ misc runtime
	ex["runtime.Gosched"] = func(fr *frame, a []value) value { E.yield(false); return nil }
	ex["runtime/debug.Stack"] = func(fr *frame, a []value) value { return []value{} }
	ex["runtime.Stack"] = func(fr *frame, a []value) value { return 0 }
	ex["runtime.NumGoroutine"] = func(fr *frame, a []value) value { return 1 }
	ex["runtime.ReadMemStats"] = func(fr *frame, a []value) value { return nil }
	ex["runtime.SetFinalizer"] = func(fr *frame, a []value) value { return nil }
	ex["runtime.KeepAlive"] = func(fr *frame, a []value) value { return nil }
	ex["os.Getpid"] = func(fr *frame, a []value) value { return 4242 }
	ex["os.Hostname"] = func(fr *frame, a []value) value { return tuple{"host", iface{}} }
}

func fmtDuration(d int64) string {
	return strconv.FormatInt(d, 10) + "ns"
}

var _ = utf8.RuneError
