package symx

import (
	"fmt"
	"go/token"
	"go/types"
	"strconv"
	"strings"
	"unicode/utf8"

	"golang.org/x/tools/go/ssa"
)

// ---------------------------------------------------------------- string summaries

func isSpaceTerm(n string) string {
	return fmt.Sprintf("(or (= %s #x20) (and (bvuge %s #x09) (bvule %s #x0d)))", n, n, n)
}

func (e *Engine) lowerByte(c value) value {
	if sc, ok := c.(sym); ok {
		return e.mk(8, fmt.Sprintf("(ite (and (bvuge %s #x41) (bvule %s #x5a)) (bvadd %s #x20) %s)", sc.name, sc.name, sc.name, sc.name))
	}
	b := c.(byte)
	if b >= 'A' && b <= 'Z' {
		b += 32
	}
	return b
}

func (e *Engine) upperByte(c value) value {
	if sc, ok := c.(sym); ok {
		return e.mk(8, fmt.Sprintf("(ite (and (bvuge %s #x61) (bvule %s #x7a)) (bvsub %s #x20) %s)", sc.name, sc.name, sc.name, sc.name))
	}
	b := c.(byte)
	if b >= 'a' && b <= 'z' {
		b -= 32
	}
	return b
}

// asciiOnly forks away (aborts) non-ASCII symbolic bytes: the case-folding summaries are valid
// for ASCII only (DESIGN 3.3); the abort is counted in the evidence as outside the claim.
func (e *Engine) asciiOnly(el []value) {
	var terms []value
	for _, c := range el {
		if sc, ok := c.(sym); ok {
			terms = append(terms, e.mk(0, fmt.Sprintf("(bvult %s #x80)", sc.name)))
		} else if c.(byte) >= 0x80 {
			panic(pathAbort{"non-ASCII byte in case-folding summary"})
		}
	}
	if len(terms) > 0 {
		all := boolAnd(terms)
		if !e.truth(all) {
			panic(pathAbort{"non-ASCII byte in case-folding summary"})
		}
	}
}

func isTokenByteTerm(n string) string {
	// RFC 7230 tchar
	return fmt.Sprintf("(or (and (bvuge %s #x30) (bvule %s #x39)) (and (bvuge %s #x41) (bvule %s #x5a)) (and (bvuge %s #x61) (bvule %s #x7a)) (= %s #x21) (and (bvuge %s #x23) (bvule %s #x27)) (= %s #x2a) (= %s #x2b) (= %s #x2d) (= %s #x2e) (= %s #x5e) (= %s #x5f) (= %s #x60) (= %s #x7c) (= %s #x7e))",
		n, n, n, n, n, n, n, n, n, n, n, n, n, n, n, n, n, n)
}

func isTokenByte(b byte) bool {
	switch {
	case b >= '0' && b <= '9', b >= 'A' && b <= 'Z', b >= 'a' && b <= 'z':
		return true
	}
	return strings.IndexByte("!#$%&'*+-.^_`|~", b) >= 0
}

// canonicalHeaderKey mirrors net/textproto.CanonicalMIMEHeaderKey as one term per byte.
func (e *Engine) canonicalHeaderKey(s value) value {
	if cs, ok := s.(string); ok {
		return canonicalConcrete(cs)
	}
	el := strElems(s)
	// valid <=> every byte is a token byte (a space makes the key invalid too: returned unchanged)
	var validTerms []value
	for _, c := range el {
		if sc, ok := c.(sym); ok {
			validTerms = append(validTerms, e.mk(0, isTokenByteTerm(sc.name)))
		} else if !isTokenByte(c.(byte)) {
			return s
		}
	}
	valid := boolAnd(validTerms)
	out := make([]value, len(el))
	for i, c := range el {
		var up value = true // upper-case position?
		if i > 0 {
			prev := el[i-1]
			if ps, ok := prev.(sym); ok {
				up = e.mk(0, fmt.Sprintf("(= %s #x2d)", ps.name))
			} else {
				up = prev.(byte) == '-'
			}
		}
		var canon value
		switch u := up.(type) {
		case bool:
			if u {
				canon = e.upperByte(c)
			} else {
				canon = e.lowerByte(c)
			}
		case sym:
			canon = e.mk(8, fmt.Sprintf("(ite %s %s %s)", u.name, e.term(e.upperByte(c), 8), e.term(e.lowerByte(c), 8)))
		}
		if vb, ok := valid.(bool); ok {
			if vb {
				out[i] = canon
			} else {
				out[i] = c
			}
		} else {
			out[i] = e.mk(8, fmt.Sprintf("(ite %s %s %s)", valid.(sym).name, e.term(canon, 8), e.term(c, 8)))
		}
	}
	return mkstr(out)
}

func canonicalConcrete(s string) string {
	for i := 0; i < len(s); i++ {
		if !isTokenByte(s[i]) {
			return s
		}
	}
	b := []byte(s)
	upper := true
	for i, c := range b {
		if upper && 'a' <= c && c <= 'z' {
			c -= 32
		} else if !upper && 'A' <= c && c <= 'Z' {
			c += 32
		}
		b[i] = c
		upper = c == '-'
	}
	return string(b)
}

func (e *Engine) equalFold(x, y value) value {
	a, b := strElems(x), strElems(y)
	if len(a) != len(b) {
		return false
	}
	e.asciiOnly(a)
	e.asciiOnly(b)
	la, lb := make([]value, len(a)), make([]value, len(b))
	for i := range a {
		la[i], lb[i] = e.lowerByte(a[i]), e.lowerByte(b[i])
	}
	return e.eqBytes(la, lb)
}

func init() {
	ex := externals
	ex["internal/bytealg.IndexByteString"] = func(fr *frame, a []value) value { return E.indexOf(strElems(a[0]), []value{a[1]}) }
	ex["internal/bytealg.IndexByte"] = func(fr *frame, a []value) value { return E.indexOf(a[0].([]value), []value{a[1]}) }
	ex["internal/bytealg.LastIndexByteString"] = func(fr *frame, a []value) value { return E.lastIndexOf(strElems(a[0]), []value{a[1]}) }
	ex["internal/bytealg.LastIndexByte"] = func(fr *frame, a []value) value { return E.lastIndexOf(a[0].([]value), []value{a[1]}) }
	ex["internal/bytealg.CountString"] = func(fr *frame, a []value) value { return E.countByte(strElems(a[0]), a[1]) }
	ex["internal/bytealg.Count"] = func(fr *frame, a []value) value { return E.countByte(a[0].([]value), a[1]) }
	ex["internal/bytealg.IndexString"] = func(fr *frame, a []value) value { return E.indexOf(strElems(a[0]), strElems(a[1])) }
	ex["internal/bytealg.Index"] = func(fr *frame, a []value) value { return E.indexOf(a[0].([]value), a[1].([]value)) }
	ex["internal/bytealg.Equal"] = func(fr *frame, a []value) value {
		x, y := a[0].([]value), a[1].([]value)
		if len(x) != len(y) {
			return false
		}
		return E.eqBytes(x, y)
	}
	ex["bytes.Equal"] = ex["internal/bytealg.Equal"]
	ex["internal/bytealg.Compare"] = func(fr *frame, a []value) value {
		x, y := a[0].([]value), a[1].([]value)
		if E.truth(E.lessBytes(x, y)) {
			return -1
		}
		if E.truth(E.lessBytes(y, x)) {
			return 1
		}
		return 0
	}
	ex["internal/bytealg.CompareString"] = func(fr *frame, a []value) value {
		x, y := strElems(a[0]), strElems(a[1])
		if E.truth(E.lessBytes(x, y)) {
			return -1
		}
		if E.truth(E.lessBytes(y, x)) {
			return 1
		}
		return 0
	}
	ex["strings.Compare"] = ex["internal/bytealg.CompareString"]
	ex["strings.Index"] = func(fr *frame, a []value) value { return E.indexOf(strElems(a[0]), strElems(a[1])) }
	ex["strings.IndexByte"] = func(fr *frame, a []value) value { return E.indexOf(strElems(a[0]), []value{a[1]}) }
	ex["strings.LastIndex"] = func(fr *frame, a []value) value { return E.lastIndexOf(strElems(a[0]), strElems(a[1])) }
	ex["strings.LastIndexByte"] = func(fr *frame, a []value) value { return E.lastIndexOf(strElems(a[0]), []value{a[1]}) }
	ex["strings.Contains"] = func(fr *frame, a []value) value { return E.containsTerm(strElems(a[0]), strElems(a[1])) }
	ex["strings.Count"] = func(fr *frame, a []value) value {
		sub := strElems(a[1])
		if len(sub) == 0 {
			return len(strElems(a[0])) + 1 // ASCII assumption
		}
		if len(sub) != 1 {
			// general: count non-overlapping occurrences by scanning
			s := strElems(a[0])
			n := 0
			for i := 0; i+len(sub) <= len(s); {
				if E.truth(E.eqBytes(s[i:i+len(sub)], sub)) {
					n++
					i += len(sub)
				} else {
					i++
				}
			}
			return n
		}
		return E.countByte(strElems(a[0]), sub[0])
	}
	ex["strings.ToLower"] = func(fr *frame, a []value) value {
		if s, ok := a[0].(string); ok {
			return strings.ToLower(s)
		}
		el := strElems(a[0])
		E.asciiOnly(el)
		out := make([]value, len(el))
		for i, c := range el {
			out[i] = E.lowerByte(c)
		}
		return mkstr(out)
	}
	ex["strings.ToUpper"] = func(fr *frame, a []value) value {
		if s, ok := a[0].(string); ok {
			return strings.ToUpper(s)
		}
		el := strElems(a[0])
		E.asciiOnly(el)
		out := make([]value, len(el))
		for i, c := range el {
			out[i] = E.upperByte(c)
		}
		return mkstr(out)
	}
	ex["strings.EqualFold"] = func(fr *frame, a []value) value {
		if x, ok := a[0].(string); ok {
			if y, ok := a[1].(string); ok {
				return strings.EqualFold(x, y)
			}
		}
		return E.equalFold(a[0], a[1])
	}
	ex["net/textproto.CanonicalMIMEHeaderKey"] = func(fr *frame, a []value) value { return E.canonicalHeaderKey(a[0]) }
	ex["net/http.CanonicalHeaderKey"] = ex["net/textproto.CanonicalMIMEHeaderKey"]
	ex["(*strings.Builder).String"] = func(fr *frame, a []value) value {
		b := (*(a[0].(*value))).(structure)
		return mkstr(b[1].([]value))
	}
	ex["(*strings.Builder).copyCheck"] = func(fr *frame, a []value) value { return nil }
	ex["internal/bytealg.MakeNoZero"] = func(fr *frame, a []value) value {
		n := a[0].(int)
		s := make([]value, n)
		for i := range s {
			s[i] = byte(0)
		}
		return s
	}
	ex["internal/stringslite.Clone"] = func(fr *frame, a []value) value { return a[0] }
	ex["strings.Clone"] = func(fr *frame, a []value) value { return a[0] }
	ex["bytes.Clone"] = func(fr *frame, a []value) value {
		if s, ok := a[0].([]value); ok && s != nil {
			return append([]value{}, s...)
		}
		return a[0]
	}
	isSpace := func(c value) bool {
		if b, ok := c.(byte); ok {
			if b >= 0x80 {
				panic(pathAbort{"non-ASCII in TrimSpace summary"})
			}
			return b == ' ' || b == '\t' || b == '\n' || b == '\v' || b == '\f' || b == '\r'
		}
		n := c.(sym).name
		if E.Branch(E.mk(0, fmt.Sprintf("(bvuge %s #x80)", n))) {
			panic(pathAbort{"non-ASCII in TrimSpace summary"})
		}
		return E.Branch(E.mk(0, isSpaceTerm(n)))
	}
	ex["strings.TrimSpace"] = func(fr *frame, a []value) value {
		if s, ok := a[0].(string); ok {
			return strings.TrimSpace(s)
		}
		el := strElems(a[0])
		lo, hi := 0, len(el)
		for lo < hi && isSpace(el[lo]) {
			lo++
		}
		for hi > lo && isSpace(el[hi-1]) {
			hi--
		}
		return mkstr(el[lo:hi])
	}
	ex["unicode/utf8.DecodeRuneInString"] = func(fr *frame, a []value) value {
		if s, ok := a[0].(string); ok {
			r, n := utf8.DecodeRuneInString(s)
			return tuple{r, n}
		}
		el := strElems(a[0])
		if len(el) == 0 {
			return tuple{rune(utf8.RuneError), 0}
		}
		if b, ok := el[0].(byte); ok && b < 0x80 {
			return tuple{rune(b), 1}
		}
		if sc, ok := el[0].(sym); ok {
			if !E.Branch(E.mk(0, fmt.Sprintf("(bvuge %s #x80)", sc.name))) {
				return tuple{E.symConv(types.Typ[types.Int32], tByte, sc), 1}
			}
		}
		panic(pathAbort{"non-ASCII rune decode on symbolic string"})
	}
	ex["unicode/utf8.ValidString"] = func(fr *frame, a []value) value {
		if s, ok := a[0].(string); ok {
			return utf8.ValidString(s)
		}
		E.asciiOnly(strElems(a[0]))
		return true
	}
	ex["unicode/utf8.RuneCountInString"] = func(fr *frame, a []value) value {
		if s, ok := a[0].(string); ok {
			return utf8.RuneCountInString(s)
		}
		E.asciiOnly(strElems(a[0]))
		return len(strElems(a[0]))
	}

	// ------------------------------------------------------------ fmt / errors
	ex["fmt.Errorf"] = func(fr *frame, a []value) value {
		format := concreteString(a[0])
		args, _ := a[1].([]value)
		msg, wrapped := formatArgs(fr, format, args)
		fmtPkg := fr.i.prog.ImportedPackage("fmt")
		if wrapped.t != nil && fmtPkg != nil {
			named := fmtPkg.Type("wrapError").Object().Type()
			var cell value = structure{msg, wrapped}
			return iface{types.NewPointer(named), &cell}
		}
		return iface{fr.i.runtimeErrorString, msg}
	}
	ex["fmt.Sprintf"] = func(fr *frame, a []value) value {
		args, _ := a[1].([]value)
		msg, _ := formatArgs(fr, concreteString(a[0]), args)
		return msg
	}
	ex["fmt.Sprint"] = func(fr *frame, a []value) value {
		args, _ := a[0].([]value)
		var out []value
		for _, x := range args {
			out = append(out, strElems(formatOne(fr, 'v', x.(iface)))...)
		}
		return mkstr(out)
	}
	ex["fmt.Sprintln"] = func(fr *frame, a []value) value {
		args, _ := a[0].([]value)
		var out []value
		for i, x := range args {
			if i > 0 {
				out = append(out, byte(' '))
			}
			out = append(out, strElems(formatOne(fr, 'v', x.(iface)))...)
		}
		out = append(out, byte('\n'))
		return mkstr(out)
	}
	ex["fmt.Println"] = func(fr *frame, a []value) value { return tuple{0, iface{}} }
	ex["fmt.Printf"] = func(fr *frame, a []value) value { return tuple{0, iface{}} }
	ex["fmt.Print"] = func(fr *frame, a []value) value { return tuple{0, iface{}} }
	ex["errors.As"] = func(fr *frame, a []value) value {
		cur := a[0].(iface)
		target := a[1].(iface)
		T := target.t.Underlying().(*types.Pointer).Elem()
		for cur.t != nil {
			if it, ok := T.Underlying().(*types.Interface); ok {
				if types.Implements(cur.t, it) {
					*(target.v.(*value)) = cur
					return true
				}
			} else if types.Identical(cur.t, T) {
				*(target.v.(*value)) = cur.v
				return true
			}
			if m := findMethodByName(cur.t, "As"); m != nil {
				if E.truth(call(fr.i, fr, token.NoPos, m, []value{cur.v, a[1]})) {
					return true
				}
			}
			cur = unwrapErr(fr, cur)
		}
		return false
	}
	ex["errors.Is"] = func(fr *frame, a []value) value {
		cur := a[0].(iface)
		target := a[1].(iface)
		if cur.t == nil || target.t == nil {
			return cur.t == nil && target.t == nil
		}
		for cur.t != nil {
			if types.Identical(cur.t, target.t) && types.Comparable(cur.t) && equals(cur.t, cur.v, target.v) {
				return true
			}
			if m := findMethodByName(cur.t, "Is"); m != nil {
				if E.truth(call(fr.i, fr, token.NoPos, m, []value{cur.v, target})) {
					return true
				}
			}
			cur = unwrapErr(fr, cur)
		}
		return false
	}
	ex["errors.Unwrap"] = func(fr *frame, a []value) value { return unwrapErr(fr, a[0].(iface)) }

	// ------------------------------------------------------------ strconv on concrete, small forks on symbolic
	ex["strconv.Itoa"] = func(fr *frame, a []value) value {
		if s, ok := a[0].(sym); ok {
			_ = s
			E.Stubs["strconv.Itoa of symbolic int (opaque \"<n>\")"]++
			return "<n>"
		}
		return strconv.Itoa(a[0].(int))
	}
	ex["strconv.FormatInt"] = func(fr *frame, a []value) value {
		if _, ok := a[0].(sym); ok {
			E.Stubs["strconv.FormatInt of symbolic int (opaque \"<n>\")"]++
			return "<n>"
		}
		return strconv.FormatInt(a[0].(int64), a[1].(int))
	}
	ex["strconv.Quote"] = func(fr *frame, a []value) value {
		if s, ok := a[0].(string); ok {
			return strconv.Quote(s)
		}
		el := strElems(a[0])
		out := append([]value{byte('"')}, el...)
		return mkstr(append(out, byte('"')))
	}

	// ------------------------------------------------------------ sort (any permutation consistent with less)
	ex["sort.Slice"] = func(fr *frame, a []value) value {
		s := a[0].(iface).v.([]value)
		less := a[1]
		insertionSort(fr, s, func(i, j int) bool { return E.truth(call(fr.i, fr, token.NoPos, less, []value{i, j})) }, func(i, j int) { s[i], s[j] = s[j], s[i] })
		return nil
	}
	ex["sort.SliceStable"] = ex["sort.Slice"]
	ex["sort.Strings"] = func(fr *frame, a []value) value {
		s := a[0].([]value)
		insertionSort(fr, s, func(i, j int) bool { return E.truth(E.lessBytes(strElems(s[i]), strElems(s[j]))) }, func(i, j int) { s[i], s[j] = s[j], s[i] })
		return nil
	}
	ex["sort.Ints"] = func(fr *frame, a []value) value {
		s := a[0].([]value)
		insertionSort(fr, s, func(i, j int) bool { return E.truth(binop(token.LSS, tInt, s[i], s[j])) }, func(i, j int) { s[i], s[j] = s[j], s[i] })
		return nil
	}
}

// insertionSort is a stable sort calling less with indices into the live slice (like sort.Slice).
func insertionSort(fr *frame, s []value, less func(i, j int) bool, swap func(i, j int)) {
	for i := 1; i < len(s); i++ {
		for j := i; j > 0 && less(j, j-1); j-- {
			swap(j, j-1)
		}
	}
}

func findMethodByName(t types.Type, name string) *ssa.Function {
	prog := theInterp.prog
	ms := prog.MethodSets.MethodSet(t)
	for i := 0; i < ms.Len(); i++ {
		if ms.At(i).Obj().Name() == name {
			return prog.MethodValue(ms.At(i))
		}
	}
	return nil
}

func unwrapErr(fr *frame, e iface) iface {
	if e.t == nil {
		return iface{}
	}
	m := findMethodByName(e.t, "Unwrap")
	if m == nil || m.Signature.Results().Len() != 1 {
		return iface{}
	}
	if _, ok := m.Signature.Results().At(0).Type().Underlying().(*types.Interface); !ok {
		return iface{} // Unwrap() []error not modelled
	}
	r := call(fr.i, fr, token.NoPos, m, []value{e.v})
	return r.(iface)
}

func errString(fr *frame, e iface) value {
	if e.t == nil {
		return "<nil>"
	}
	m := findMethodByName(e.t, "Error")
	if m == nil {
		if s, ok := e.v.(string); ok {
			return s
		}
		return toString(e.v)
	}
	return call(fr.i, fr, token.NoPos, m, []value{e.v})
}

var errorIface = types.Universe.Lookup("error").Type().Underlying().(*types.Interface)

func formatOne(fr *frame, verb byte, arg iface) value {
	if arg.t == nil {
		return "<nil>"
	}
	if types.Implements(arg.t, errorIface) {
		return errString(fr, arg)
	}
	if verb == 's' || verb == 'v' || verb == 'q' {
		if m := findMethodByName(arg.t, "String"); m != nil && m.Signature.Params().Len() == 0 && m.Signature.Results().Len() == 1 {
			if b, ok := m.Signature.Results().At(0).Type().Underlying().(*types.Basic); ok && b.Kind() == types.String {
				return call(fr.i, fr, token.NoPos, m, []value{arg.v})
			}
		}
	}
	switch v := arg.v.(type) {
	case string:
		if verb == 'q' {
			return strconv.Quote(v)
		}
		return v
	case symstr:
		if verb == 'q' {
			return mkstr(append(append([]value{byte('"')}, v...), byte('"')))
		}
		return v
	case sym:
		E.Stubs["fmt of symbolic scalar (opaque \"<sym>\")"]++
		return "<sym>"
	case bool:
		return strconv.FormatBool(v)
	case int, int8, int16, int32, int64:
		return fmt.Sprintf("%"+string(verbOr(verb, "dvxX", 'd')), asInt64(v))
	case uint, uint8, uint16, uint32, uint64, uintptr:
		return fmt.Sprintf("%"+string(verbOr(verb, "dvxX", 'd')), asUint64Any(v))
	case float64:
		return fmt.Sprintf("%"+string(verbOr(verb, "vfge", 'v')), v)
	case float32:
		return fmt.Sprintf("%"+string(verbOr(verb, "vfge", 'v')), v)
	case []value:
		// []byte as string for %s
		if verb == 's' {
			allBytes := true
			for _, x := range v {
				switch x.(type) {
				case byte, sym:
				default:
					allBytes = false
				}
			}
			if allBytes {
				return mkstr(v)
			}
		}
	}
	return toString(arg.v)
}

func verbOr(verb byte, allowed string, def byte) byte {
	if strings.IndexByte(allowed, verb) >= 0 {
		return verb
	}
	return def
}

// formatArgs renders the subset of fmt verbs olla uses; symbolic strings stay symbolic.
func formatArgs(fr *frame, format string, args []value) (value, iface) {
	var out []value
	var wrapped iface
	ai := 0
	for i := 0; i < len(format); i++ {
		c := format[i]
		if c != '%' || i+1 >= len(format) {
			out = append(out, c)
			continue
		}
		j := i + 1
		for j < len(format) && strings.IndexByte("0123456789.+-# ", format[j]) >= 0 {
			j++
		}
		if j >= len(format) {
			break
		}
		spec := format[i : j+1]
		verb := format[j]
		i = j
		if verb == '%' {
			out = append(out, byte('%'))
			continue
		}
		if ai >= len(args) {
			out = append(out, strElems("%!"+string(verb)+"(MISSING)")...)
			continue
		}
		arg := args[ai].(iface)
		ai++
		if verb == 'w' && arg.t != nil {
			wrapped = arg
		}
		// numeric with flags on concrete values: use the host fmt
		if len(spec) > 2 && arg.t != nil {
			switch v := arg.v.(type) {
			case float64:
				out = append(out, strElems(fmt.Sprintf(spec, v))...)
				continue
			case float32:
				out = append(out, strElems(fmt.Sprintf(spec, v))...)
				continue
			case int, int8, int16, int32, int64:
				out = append(out, strElems(fmt.Sprintf(spec, asInt64(v)))...)
				continue
			case uint, uint8, uint16, uint32, uint64:
				out = append(out, strElems(fmt.Sprintf(spec, asUint64Any(v)))...)
				continue
			}
		}
		if verb == 'T' {
			if arg.t == nil {
				out = append(out, strElems("<nil>")...)
			} else {
				out = append(out, strElems(arg.t.String())...)
			}
			continue
		}
		out = append(out, strElems(formatOne(fr, verb, arg))...)
	}
	return mkstr(out), wrapped
}
