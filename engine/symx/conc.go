package symx

// Cooperative goroutines, channels and the synchronisation intrinsics (DESIGN 2.6).
// Exactly one interpreted goroutine runs at a time (it holds the baton); control changes hands
// only at synchronisation points, and which goroutine runs next is a decision in the trail.

import (
	"fmt"
	"go/token"
	"go/types"

	"golang.org/x/tools/go/ssa"
)

type killGoroutine struct{}

type gor struct {
	id      int
	wake    chan struct{}
	done    bool
	started bool
	ready   func() bool // nil: runnable; otherwise blocked until ready() holds
	what    string      // what it is blocked on (diagnostics)
	// wouldBlock: the goroutine is parked at the scheduling point in front of a lock acquisition;
	// while the lock is held, switching to it is a no-op (it would block at once), so it is not
	// offered as an alternative (partial-order reduction)
	wouldBlock func() bool
	held       int // write locks currently held (CS_ATOMIC reduction)
	stack      []*ssa.Function
}

var callFns []*ssa.Function

type xchan struct {
	buf    []value
	cap    int
	closed bool
	// unbuffered rendezvous: a sender deposits into slot and waits until taken
	slot    []value
	nrecvWt int // receivers currently blocked on this channel
	timer   bool // a timer/deadline channel: may fire whenever waited upon
	never   bool // timer that never fires
	ctxDone bool // a context deadline: firing closes the channel
	// discrete-event timers (TIMERS_DES=1): the timer fires only when every goroutine is blocked,
	// earliest deadline first; firing advances the virtual clock to the deadline
	des      bool
	deadline int64
	fired    bool
	onFire   func() // time.AfterFunc: run in a new goroutine when the timer fires
}

func newChan(n int) *xchan { return &xchan{cap: n} }

func (c *xchan) length() int {
	if c == nil {
		return 0
	}
	return len(c.buf)
}
func (c *xchan) capacity() int {
	if c == nil {
		return 0
	}
	return c.cap
}

func (e *Engine) curG() *gor { return e.cur }

// schedFull reports whether every synchronisation point is a scheduling decision.
func (e *Engine) schedFull() bool { return e.Params["SCHED"] == 1 }

func (e *Engine) runnable() []*gor {
	var r []*gor
	for _, g := range e.gors {
		if g.done {
			continue
		}
		if g.ready == nil && g.wouldBlock != nil && g != e.cur && g.wouldBlock() {
			continue
		}
		if g.ready == nil || g.ready() {
			r = append(r, g)
		}
	}
	return r
}

// switchTo hands the baton to g and parks the caller until it is handed back.
func (e *Engine) switchTo(g *gor) {
	prev := e.cur
	if g == prev {
		return
	}
	prev.stack = callFns
	e.cur = g
	callFns = g.stack
	g.wake <- struct{}{}
	if prev.done {
		return
	}
	<-prev.wake
	if e.killed {
		panic(killGoroutine{})
	}
	if e.fault != nil && prev.id == 0 {
		f := e.fault
		e.fault = nil
		panic(f)
	}
}

// yield is a scheduling point: any runnable goroutine (including the caller) may go next.
func (e *Engine) yield(forced bool) {
	if len(e.gors) <= 1 {
		return
	}
	if !forced && !e.schedFull() {
		return
	}
	if !forced && e.cur.held > 0 && e.Params["CS_ATOMIC"] == 1 {
		// reduction (job parameter): inside a critical section atomic steps are not scheduling
		// points; sound when every access to the protected data takes the same lock
		return
	}
	if !forced && e.cur.id == 0 {
		// reduction: the main (harness) goroutine is not preempted; it runs until it blocks, yields
		// explicitly or drains.  Secondary goroutines interleave fully with each other.
		return
	}
	r := e.runnable()
	if len(r) <= 1 {
		if len(r) == 1 && r[0] != e.cur {
			e.switchTo(r[0])
		}
		return
	}
	// put the current goroutine first so that choice 0 = "keep running"
	ord := []*gor{}
	for _, g := range r {
		if g == e.cur {
			ord = append(ord, g)
		}
	}
	for _, g := range r {
		if g != e.cur {
			ord = append(ord, g)
		}
	}
	c := e.decide(make([]string, len(ord)))
	e.SchedDecisions++
	e.pathNondet = true
	e.switchTo(ord[c])
}

// block parks the current goroutine until ready() holds.
func (e *Engine) block(what string, ready func() bool) {
	for !ready() {
		g := e.cur
		g.ready, g.what = ready, what
		r := e.runnable()
		for len(r) == 0 && e.fireNextTimer() {
			r = e.runnable()
		}
		if len(r) == 0 {
			// nobody can run: deadlock (if main is blocked) — end of path for main
			e.deadlock()
		}
		var next *gor
		if len(r) == 1 || !e.schedFull() {
			next = r[0]
		} else {
			c := e.decide(make([]string, len(r)))
			e.SchedDecisions++
			e.pathNondet = true
			next = r[c]
		}
		if next != g {
			e.switchTo(next)
		}
		g.ready, g.what = nil, ""
	}
}

// newDESTimer arms a discrete-event timer of d nanoseconds.
func (e *Engine) newDESTimer(d value, ctxDone bool) *xchan {
	dd, ok := d.(int64)
	if !ok {
		panic(infraError{"TIMERS_DES needs concrete timer durations"})
	}
	ch := &xchan{cap: 1, timer: true, des: true, deadline: e.desNow + dd, ctxDone: ctxDone}
	e.desTimers = append(e.desTimers, ch)
	return ch
}

// fireNextTimer fires the armed discrete-event timer with the earliest deadline (creation order on
// ties) and advances the virtual clock to it.  It reports whether a timer fired.
func (e *Engine) fireNextTimer() bool {
	var best *xchan
	for _, t := range e.desTimers {
		if t.never || t.fired || t.closed {
			continue
		}
		if best == nil || t.deadline < best.deadline {
			best = t
		}
	}
	if best == nil {
		return false
	}
	if best.deadline > e.desNow {
		e.clock = binop(token.ADD, tInt64, e.now(), best.deadline-e.desNow)
		e.desNow = best.deadline
	}
	best.fired = true
	e.TimersFired++
	if best.onFire != nil {
		best.onFire()
		return true
	}
	if best.ctxDone {
		best.closed = true
	} else {
		best.buf = []value{timeVal(e.now())}
	}
	return true
}

// settle lets every goroutine run until all are finished or blocked with no timer left to fire,
// and returns the number of unfinished secondary goroutines.
func (e *Engine) settle() int {
	for {
		e.drain()
		if e.blockedGoroutines() == 0 || !e.fireNextTimer() {
			break
		}
	}
	return e.blockedGoroutines()
}

// deadlock: no goroutine can make progress.
func (e *Engine) deadlock() {
	var desc string
	for _, g := range e.gors {
		if !g.done {
			desc += fmt.Sprintf("[g%d blocked on %s]", g.id, g.what)
		}
	}
	if e.cur.id != 0 {
		// hand over to main, which reports; this goroutine stays parked until killed
		e.fault = deadlockErr{desc}
		e.switchTo(e.gors[0])
		return
	}
	panic(deadlockErr{desc})
}

type deadlockErr struct{ desc string }

func spawnGoroutine(i *interpreter, pos token.Pos, fn value, args []value) {
	e := E
	if len(e.gors) == 0 {
		panic(infraError{"spawn before main goroutine registered"})
	}
	g := &gor{id: len(e.gors), wake: make(chan struct{})}
	e.gors = append(e.gors, g)
	e.Spawned++
	go func() {
		<-g.wake
		if e.killed {
			e.killAck <- struct{}{}
			return
		}
		g.started = true
		defer func() {
			p := recover()
			g.done = true
			if _, ok := p.(killGoroutine); ok {
				e.killAck <- struct{}{}
				return
			}
			if p != nil {
				// a fault in a secondary goroutine ends the path in main
				if e.fault == nil {
					e.fault = p
					e.faultStack = stackStrings()
				}
				e.switchTo(e.gors[0])
				return
			}
			// normal exit: pass the baton on
			r := e.runnable()
			for len(r) == 0 && e.fireNextTimer() {
				r = e.runnable()
			}
			if len(r) == 0 {
				e.fault = deadlockErr{"all remaining goroutines blocked"}
				e.switchTo(e.gors[0])
				return
			}
			var next *gor
			if len(r) == 1 || !e.schedFull() {
				next = r[0]
			} else {
				c := e.decide(make([]string, len(r)))
				e.SchedDecisions++
				e.pathNondet = true
				next = r[c]
			}
			e.switchTo(next)
		}()
		call(i, nil, pos, fn, args)
	}()
}

// drain lets secondary goroutines run until each is done or blocked (called by main at the end of
// the harness and by gosym.RunPending).
func (e *Engine) drain() {
	for {
		var r []*gor
		for _, g := range e.runnable() {
			if g != e.cur {
				r = append(r, g)
			}
		}
		if len(r) == 0 {
			return
		}
		var next *gor
		if len(r) == 1 || !e.schedFull() {
			next = r[0]
		} else {
			c := e.decide(make([]string, len(r)))
			e.SchedDecisions++
			e.pathNondet = true
			next = r[c]
		}
		// main stays runnable; it gets the baton back when next blocks or finishes
		e.switchToAndReturn(next)
	}
}

// switchToAndReturn runs g until it blocks/finishes with main marked as "only if nobody else".
func (e *Engine) switchToAndReturn(g *gor) {
	main := e.cur
	flag := false
	main.ready = func() bool { return flag }
	main.what = "drain"
	// main becomes ready only when no other goroutine can run
	main.ready = func() bool {
		for _, o := range e.gors {
			if o != main && !o.done && (o.ready == nil || o.ready()) {
				return false
			}
		}
		return true
	}
	e.switchTo(g)
	main.ready, main.what = nil, ""
	_ = flag
}

// blockedGoroutines counts secondary goroutines that have not finished.
func (e *Engine) blockedGoroutines() int {
	n := 0
	for _, g := range e.gors[1:] {
		if !g.done {
			n++
		}
	}
	return n
}

// killAll terminates all parked secondary goroutines at the end of a path.
func (e *Engine) killAll() {
	e.killed = true
	for _, g := range e.gors {
		if g.id == 0 || g.done {
			continue
		}
		g.wake <- struct{}{}
		<-e.killAck
	}
	e.killed = false
	e.gors = nil
	e.cur = nil
	e.fault = nil
}

// ---- channels

func chanSend(c value, v value) {
	ch := c.(*xchan)
	e := E
	if ch == nil {
		e.block("send on nil channel", func() bool { return false })
	}
	e.yield(false)
	if ch.closed {
		panic(targetPanic{iface{theInterp.runtimeErrorString, "send on closed channel"}})
	}
	if ch.cap > 0 {
		e.block("chan send", func() bool { return ch.closed || len(ch.buf) < ch.cap })
		if ch.closed {
			panic(targetPanic{iface{theInterp.runtimeErrorString, "send on closed channel"}})
		}
		ch.buf = append(ch.buf, v)
		return
	}
	// unbuffered: wait for the slot to be free, deposit, wait until taken
	e.block("chan send", func() bool { return ch.closed || len(ch.slot) == 0 })
	if ch.closed {
		panic(targetPanic{iface{theInterp.runtimeErrorString, "send on closed channel"}})
	}
	cell := []value{v}
	ch.slot = cell
	e.block("chan send (rendezvous)", func() bool { return len(cell) == 0 || ch.closed || !sameSlot(ch.slot, cell) })
}

func sameSlot(a, b []value) bool { return len(a) > 0 && len(b) > 0 && &a[0] == &b[0] }

func (ch *xchan) recvReady() bool {
	return ch.closed || len(ch.buf) > 0 || len(ch.slot) > 0 || ch.timer && !ch.never && !ch.des
}

func (ch *xchan) take() (value, bool) {
	if len(ch.buf) > 0 {
		v := ch.buf[0]
		ch.buf = ch.buf[1:]
		return v, true
	}
	if len(ch.slot) > 0 {
		v := ch.slot[0]
		ch.slot = nil
		return v, true
	}
	if ch.timer && !ch.never && !ch.closed && !ch.des {
		if ch.ctxDone {
			ch.closed = true
			return nil, false
		}
		return timeVal(E.now()), true
	}
	return nil, false // closed
}

func chanRecv(c value) (value, bool) {
	ch := c.(*xchan)
	e := E
	if ch == nil {
		e.block("receive on nil channel", func() bool { return false })
	}
	e.yield(false)
	ch.nrecvWt++
	e.block("chan recv", ch.recvReady)
	ch.nrecvWt--
	return ch.take()
}

func chanClose(c value) {
	ch := c.(*xchan)
	if ch == nil {
		panic(targetPanic{iface{theInterp.runtimeErrorString, "close of nil channel"}})
	}
	if ch.closed {
		panic(targetPanic{iface{theInterp.runtimeErrorString, "close of closed channel"}})
	}
	ch.closed = true
	E.yield(false)
}

func doSelect(fr *frame, instr *ssa.Select) value {
	e := E
	type cs struct {
		ch   *xchan
		send bool
		v    value
	}
	var cases []cs
	for _, st := range instr.States {
		c := cs{ch: fr.get(st.Chan).(*xchan), send: st.Dir == types.SendOnly}
		if c.send {
			c.v = fr.get(st.Send)
		}
		cases = append(cases, c)
	}
	e.yield(false)
	readyIdx := func() []int {
		var r []int
		for i, c := range cases {
			if c.ch == nil {
				continue
			}
			if c.send {
				if c.ch.closed || c.ch.cap > 0 && len(c.ch.buf) < c.ch.cap || c.ch.cap == 0 && c.ch.nrecvWt > 0 && len(c.ch.slot) == 0 {
					r = append(r, i)
				}
			} else if c.ch.recvReady() {
				r = append(r, i)
			}
		}
		return r
	}
	r := readyIdx()
	if len(r) == 0 {
		if !instr.Blocking {
			return selectResult(instr, -1, false, nil)
		}
		for _, c := range cases {
			if c.ch != nil && !c.send {
				c.ch.nrecvWt++
			}
		}
		e.block("select", func() bool { return len(readyIdx()) > 0 })
		for _, c := range cases {
			if c.ch != nil && !c.send {
				c.ch.nrecvWt--
			}
		}
		r = readyIdx()
	}
	pick := r[0]
	if len(r) > 1 {
		pick = r[e.decide(make([]string, len(r)))]
		e.pathNondet = true
	}
	c := cases[pick]
	if c.send {
		if c.ch.closed {
			panic(targetPanic{iface{theInterp.runtimeErrorString, "send on closed channel"}})
		}
		if c.ch.cap > 0 {
			c.ch.buf = append(c.ch.buf, c.v)
		} else {
			c.ch.slot = []value{c.v}
		}
		return selectResult(instr, pick, false, nil)
	}
	v, ok := c.ch.take()
	return selectResult(instr, pick, ok, v)
}

func selectResult(instr *ssa.Select, chosen int, recvOk bool, recv value) value {
	r := tuple{chosen, recvOk}
	for i, st := range instr.States {
		if st.Dir == types.RecvOnly {
			var v value
			if i == chosen && recvOk {
				v = recv
			} else {
				v = zero(st.Chan.Type().Underlying().(*types.Chan).Elem())
			}
			r = append(r, v)
		}
	}
	return r
}
